// Kani harnesses for the raw-pointer bit addressing of src/bbloom.rs.
// Included as a child module of `bbloom` (so the private fields are reachable); no line of the crate changes.
use super::*;

/// bit i of the bit array, little-endian byte addressing inside each u64 word (the spec function `Bloom::bit`
/// of units/u1_estimator.vrs, executable)
fn spec_bit(words: &[u64], i: usize) -> bool {
    (words[i / 64] >> (i % 64)) & 1 == 1
}

fn arbitrary_bloom<const N: usize>() -> Bloom {
    let words: [u64; N] = kani::any();
    Bloom {
        bitset: words.to_vec(),
        elem_num: kani::any(),
        size_exp: kani::any(),
        size: (N as u64) * 64 - 1,
        set_locs: kani::any(),
        shift: kani::any(),
    }
}

//@harness bloom_set_contract props=C14,C13,C20 target=Bloom::set bounded=no claim=for the 512-bit layout (the smallest Bloom::new builds), any bit-array contents, any idx,j <= size: after set(idx), bit j is set iff j == idx or it was set before; no out-of-bounds access; array length unchanged (loop-free, complete over the layout)
#[kani::proof]
fn bloom_set_contract() {
    let mut b = arbitrary_bloom::<8>();
    let idx: usize = kani::any();
    let j: usize = kani::any();
    kani::assume(idx <= b.size as usize && j <= b.size as usize);
    kani::cover!(idx >= 64 && j >= 64, "indices beyond the first word are reachable");
    let before = spec_bit(&b.bitset, j);
    b.set(idx);
    assert!(b.bitset.len() == 8);
    assert!(spec_bit(&b.bitset, j) == (j == idx || before));
}

//@harness bloom_is_set_contract props=C14,C13,C20 target=Bloom::is_set bounded=no claim=for the 512-bit layout, any contents, any idx <= size: is_set(idx) == bit idx of the array (loop-free, complete over the layout)
#[kani::proof]
fn bloom_is_set_contract() {
    let b = arbitrary_bloom::<8>();
    let idx: usize = kani::any();
    kani::assume(idx <= b.size as usize);
    kani::cover!(idx >= 64, "indices beyond the first word are reachable");
    assert!(b.is_set(idx) == spec_bit(&b.bitset, idx));
}

//@harness bloom_set_contract_1024_thorough props=C14,C13,C20 target=Bloom::set bounded=no claim=same contract for the 1024-bit layout (16 words)
#[kani::proof]
fn bloom_set_contract_1024_thorough() {
    let mut b = arbitrary_bloom::<16>();
    let idx: usize = kani::any();
    let j: usize = kani::any();
    kani::assume(idx <= b.size as usize && j <= b.size as usize);
    let before = spec_bit(&b.bitset, j);
    b.set(idx);
    assert!(b.bitset.len() == 16);
    assert!(spec_bit(&b.bitset, j) == (j == idx || before));
}

//@harness bloom_is_set_contract_1024_thorough props=C14,C13,C20 target=Bloom::is_set bounded=no claim=same contract for the 1024-bit layout (16 words)
#[kani::proof]
fn bloom_is_set_contract_1024_thorough() {
    let b = arbitrary_bloom::<16>();
    let idx: usize = kani::any();
    kani::assume(idx <= b.size as usize);
    assert!(b.is_set(idx) == spec_bit(&b.bitset, idx));
}

//@harness bloom_set_contract_4096_thorough props=C14,C13,C20 target=Bloom::set bounded=no claim=same contract for the 4096-bit layout (64 words)
#[kani::proof]
fn bloom_set_contract_4096_thorough() {
    let mut b = arbitrary_bloom::<64>();
    let idx: usize = kani::any();
    let j: usize = kani::any();
    kani::assume(idx <= b.size as usize && j <= b.size as usize);
    let before = spec_bit(&b.bitset, j);
    b.set(idx);
    assert!(b.bitset.len() == 64);
    assert!(spec_bit(&b.bitset, j) == (j == idx || before));
}

//@harness bloom_is_set_contract_4096_thorough props=C14,C13,C20 target=Bloom::is_set bounded=no claim=same contract for the 4096-bit layout (64 words)
#[kani::proof]
fn bloom_is_set_contract_4096_thorough() {
    let b = arbitrary_bloom::<64>();
    let idx: usize = kani::any();
    kani::assume(idx <= b.size as usize);
    assert!(b.is_set(idx) == spec_bit(&b.bitset, idx));
}

//@harness bloom_add_paths_present props=C14,C13 target=Bloom::contains_or_add bounded=set_locs_le_3 claim=for the 512-bit layout, any contents, any 64-bit hash and up to 3 probe locations: after add(h) as well as after contains_or_add(h) the hash is reported present by contains(h), a second contains_or_add(h) answers false, and bits that were set stay set (every insertion path and the query path walk the same probe sequence)
#[kani::proof]
#[kani::unwind(5)]
fn bloom_add_paths_present() {
    let mut b = arbitrary_bloom::<8>();
    kani::assume(b.set_locs <= 3);
    kani::assume(b.elem_num < 1 << 32);
    b.size_exp = 9;
    b.shift = 64 - 9;
    let h: u64 = kani::any();
    let j: usize = kani::any();
    kani::assume(j <= b.size as usize);
    let before = spec_bit(&b.bitset, j);
    let via_coa: bool = kani::any();
    kani::cover!(via_coa && (h << 9) == 0 && h != 0, "hashes that differ only in their high bits are reachable");
    if via_coa {
        b.contains_or_add(h);
    } else {
        b.add(h);
    }
    assert!(b.contains(h));
    assert!(!before || spec_bit(&b.bitset, j));
    assert!(!b.contains_or_add(h));
}
