// Kani harness for src/histogram.rs (atomics + f64 bounds: outside Verus).  The 16 power-of-two bounds the
// metrics use give a fixed loop bound of 17, so the unrolling is exact (unwinding assertions on).
use super::*;

fn bounds16() -> Vec<f64> {
    // same values as metrics::new_histogram_bound(): 2^1 ..= 2^16
    let mut v = Vec::with_capacity(16);
    let mut i = 1u64;
    while i <= 16 {
        v.push((1u64 << i) as f64);
        i += 1;
    }
    v
}

//@harness histogram_update_counts_one_bucket props=C17 target=Histogram::update bounded=no claim=for every i64 sample: update(v) adds exactly 1 to count and exactly 1 to exactly one bucket (so count == sum of buckets is preserved), the bucket being the first whose bound exceeds v (the overflow bucket otherwise)
#[kani::proof]
#[kani::unwind(19)]
fn histogram_update_counts_one_bucket() {
    let h = Histogram::new(bounds16());
    let v: i64 = kani::any();
    let j: usize = kani::any();
    kani::assume(j <= 16);
    let before_j = h.count_per_bucket[j].load(Ordering::SeqCst);
    let before_count = h.count.load(Ordering::SeqCst);
    h.update(v);
    assert!(h.count.load(Ordering::SeqCst) == before_count + 1);
    // the bucket that must receive the sample
    let mut want = 16usize;
    let mut i = 0usize;
    while i < 16 {
        if v < (1i64 << (i + 1)) {
            want = i;
            break;
        }
        i += 1;
    }
    let after_j = h.count_per_bucket[j].load(Ordering::SeqCst);
    assert!(after_j == before_j + if j == want { 1 } else { 0 });
}

//@harness histogram_clear_zeroes props=C17,C11 target=Histogram::clear bounded=no claim=clear() resets count, sum and every bucket to zero after any sample
#[kani::proof]
#[kani::unwind(19)]
fn histogram_clear_zeroes() {
    let h = Histogram::new(bounds16());
    h.update(kani::any());
    h.clear();
    let j: usize = kani::any();
    kani::assume(j <= 16);
    assert!(h.count.load(Ordering::SeqCst) == 0);
    assert!(h.sum.load(Ordering::SeqCst) == 0);
    assert!(h.count_per_bucket[j].load(Ordering::SeqCst) == 0);
}
