// Kani harnesses for the key hashing of src/lib.rs: loop-free, over the full domain of every supported integer type.
use super::*;

macro_rules! transparent_identity {
    ($name:ident, $t:ty) => {
        #[kani::proof]
        fn $name() {
            let k: $t = kani::any();
            let kb = TransparentKeyBuilder::<$t>::default();
            let (index, conflict) = kb.build_key(&k);
            assert!(index == k as u64);
            assert!(conflict == 0);
            assert!(k.to_u64() == k as u64);
            // deterministic: a second call (also through a fresh builder) gives the same pair
            let kb2 = TransparentKeyBuilder::<$t>::default();
            assert!(kb2.build_key(&k) == (index, conflict));
            // injective on the type: two keys with the same index are the same key
            let k2: $t = kani::any();
            if kb.build_key(&k2).0 == index {
                assert!(k2 == k);
            }
        }
    };
}

//@harness transparent_u8 props=C18,C02,C09,C04,C06 target=TransparentKeyBuilder::build_key bounded=no claim=for every u8 key: build_key == (key as u64, 0), deterministic, injective
transparent_identity!(transparent_u8, u8);
//@harness transparent_u16 props=C18,C02,C09,C04,C06 target=TransparentKeyBuilder::build_key bounded=no claim=for every u16 key: build_key == (key as u64, 0), deterministic, injective
transparent_identity!(transparent_u16, u16);
//@harness transparent_u32 props=C18,C02,C09,C04,C06 target=TransparentKeyBuilder::build_key bounded=no claim=for every u32 key: build_key == (key as u64, 0), deterministic, injective
transparent_identity!(transparent_u32, u32);
//@harness transparent_u64 props=C18,C02,C09,C04,C06 target=TransparentKeyBuilder::build_key bounded=no claim=for every u64 key: build_key == (key, 0), deterministic, injective
transparent_identity!(transparent_u64, u64);
//@harness transparent_usize props=C18,C02,C09,C04,C06 target=TransparentKeyBuilder::build_key bounded=no claim=for every usize key: build_key == (key as u64, 0), deterministic, injective
transparent_identity!(transparent_usize, usize);
//@harness transparent_i8 props=C18,C02,C09,C04,C06 target=TransparentKeyBuilder::build_key bounded=no claim=for every i8 key (negative and boundary values included): build_key == (key as u64, 0), deterministic, injective
transparent_identity!(transparent_i8, i8);
//@harness transparent_i16 props=C18,C02,C09,C04,C06 target=TransparentKeyBuilder::build_key bounded=no claim=for every i16 key: build_key == (key as u64, 0), deterministic, injective
transparent_identity!(transparent_i16, i16);
//@harness transparent_i32 props=C18,C02,C09,C04,C06 target=TransparentKeyBuilder::build_key bounded=no claim=for every i32 key: build_key == (key as u64, 0), deterministic, injective
transparent_identity!(transparent_i32, i32);
//@harness transparent_i64 props=C18,C02,C09,C04,C06 target=TransparentKeyBuilder::build_key bounded=no claim=for every i64 key: build_key == (key as u64, 0), deterministic, injective
transparent_identity!(transparent_i64, i64);
//@harness transparent_isize props=C18,C02,C09,C04,C06 target=TransparentKeyBuilder::build_key bounded=no claim=for every isize key: build_key == (key as u64, 0), deterministic, injective
transparent_identity!(transparent_isize, isize);

//@harness transparent_bool props=C18,C02,C09,C04,C06 target=TransparentKeyBuilder::build_key bounded=no claim=for both bool keys: build_key == (key as u64, 0), distinct keys get distinct indices
#[kani::proof]
fn transparent_bool() {
    let k: bool = kani::any();
    let kb = TransparentKeyBuilder::<bool>::default();
    let (index, conflict) = kb.build_key(&k);
    assert!(index == k as u64 && conflict == 0);
    let k2: bool = kani::any();
    if kb.build_key(&k2).0 == index {
        assert!(k2 == k);
    }
}

//@harness transparent_hasher_write_bytes props=C18,C02,C09,C04,C06 target=TransparentHasher::write bounded=slices_up_to_12_bytes claim=write(bytes) keeps the first min(len, 8) bytes in native order, zero padded, for every byte slice of length 0..=12 (bounded: longer slices take the same >8 branch)
#[kani::proof]
#[kani::unwind(14)]
fn transparent_hasher_write_bytes() {
    let n: usize = kani::any();
    kani::assume(n <= 12);
    let bytes: [u8; 12] = kani::any();
    let mut h = TransparentHasher::default();
    h.write(&bytes[..n]);
    let mut d = [0u8; 8];
    let mut i = 0;
    while i < 8 {
        if i < n {
            d[i] = bytes[i];
        }
        i += 1;
    }
    assert!(h.finish() == u64::from_ne_bytes(d));
}
