// Kani harnesses for src/sketch.rs CountMinRow: the 4-bit counter arithmetic on the REAL functions, for a row of 4 bytes
// (8 counters) with arbitrary contents and every index — loop-free for get/increment; reset/clear loop over the 4 bytes
// (unwind 6, unwinding assertions on).  The addressing code (i / 2, (i & 1) * 4) does not depend on the row length.
// They decide the same statements as the Verus clauses row.get / row.inc.* / row.reset.halve / row.clear.zero and act as a
// SECOND OPINION: a Verus clause that fails while its complete Kani twin passes on the same tree is proof brittleness, not a violation.
use super::*;

fn nib(b: u8, odd: bool) -> u8 { if odd { b >> 4 } else { b & 0x0f } }
fn any_row() -> (CountMinRow, [u8; 4]) {
    let bytes: [u8; 4] = kani::any();
    let mut r = CountMinRow::new(4);
    r.0[0] = bytes[0]; r.0[1] = bytes[1]; r.0[2] = bytes[2]; r.0[3] = bytes[3];
    (r, bytes)
}

//@harness sketch_row_get props=C13,C07,C15,C11,C14,C20 target=CountMinRow::get bounded=no claim=[row.get] for every 4-byte row and every i < 8: get(i) is the low (i even) or high (i odd) nibble of byte i/2
#[kani::proof]
#[kani::unwind(6)]
fn sketch_row_get() {
    let (r, bytes) = any_row();
    let i: u64 = kani::any();
    kani::assume(i < 8);
    assert!(r.get(i) == nib(bytes[(i / 2) as usize], i % 2 == 1));
}

//@harness sketch_row_increment props=C13,C07,C15,C11,C14,C20 target=CountMinRow::increment bounded=no claim=[row.inc.saturating][row.inc.no-spill] increment(i) adds one to counter i unless it is 15 and leaves the seven other counters alone
#[kani::proof]
#[kani::unwind(10)]
fn sketch_row_increment() {
    let (mut r, bytes) = any_row();
    let i: u64 = kani::any();
    kani::assume(i < 8);
    r.increment(i);
    let mut j: u64 = 0;
    while j < 8 {
        let before = nib(bytes[(j / 2) as usize], j % 2 == 1);
        let after = r.get(j);
        if j == i { assert!(after == if before < 15 { before + 1 } else { 15 }); } else { assert!(after == before); }
        j += 1;
    }
    assert!(r.0.len() == 4);
}

//@harness sketch_row_reset_clear props=C13,C07,C15,C11,C14,C20 target=CountMinRow::reset bounded=no claim=[row.reset.halve][row.clear.zero] reset() halves every counter (rounding down), clear() zeroes every counter, neither changes the length
#[kani::proof]
#[kani::unwind(10)]
fn sketch_row_reset_clear() {
    let (mut r, bytes) = any_row();
    r.reset();
    let mut j: u64 = 0;
    while j < 8 {
        assert!(r.get(j) == nib(bytes[(j / 2) as usize], j % 2 == 1) / 2);
        j += 1;
    }
    r.clear();
    let mut k: u64 = 0;
    while k < 8 { assert!(r.get(k) == 0); k += 1; }
    assert!(r.0.len() == 4);
}
