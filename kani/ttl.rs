// Kani harnesses for src/ttl.rs `Time` (std::time is outside Verus' reach). The OS clock is stubbed by a
// settable value, so every (t0, t1 >= t0) with seconds below 2^40 and EVERY Duration d (up to Duration::MAX) is covered
// symbolically (loop-free); arithmetic overflow panics are checked by Kani on the way.
use super::*;

static mut NOW_S: u64 = 0;
static mut NOW_N: u32 = 0;
fn fake_now() -> SystemTime {
    unsafe { UNIX_EPOCH + Duration::new(NOW_S, NOW_N) }
}
fn set_now(s: u64, n: u32) {
    unsafe {
        NOW_S = s;
        NOW_N = n;
    }
}
const LIM: u64 = 1u64 << 40;

fn any_instant() -> (u64, u32) {
    let s: u64 = kani::any();
    let n: u32 = kani::any();
    kani::assume(s < LIM && n < 1_000_000_000);
    (s, n)
}
/// any TTL a caller can pass: every Duration, Duration::MAX included
fn any_ttl() -> (u64, u32) {
    let s: u64 = kani::any();
    let n: u32 = kani::any();
    kani::assume(n < 1_000_000_000);
    (s, n)
}

//@harness time_expiry_exact props=C03,C04,C05,C20 target=Time::is_expired bounded=no claim=for all t0 <= t1 and every TTL d > 0 up to Duration::MAX: a Time created at t0 with TTL d reports is_expired() at t1 iff t1 - t0 >= d, and is_zero() is false
#[kani::proof]
#[kani::stub(std::time::SystemTime::now, fake_now)]
#[kani::unwind(3)]
fn time_expiry_exact() {
    let (s0, n0) = any_instant();
    let (s1, n1) = any_instant();
    let (ds, dn) = any_ttl();
    kani::assume((s1, n1) >= (s0, n0));
    kani::assume(ds > 0 || dn > 0);
    set_now(s0, n0);
    let t = Time::now_with_expiration(Duration::new(ds, dn));
    set_now(s1, n1);
    let (es, en) = if n1 >= n0 { (s1 - s0, n1 - n0) } else { (s1 - s0 - 1, n1 + 1_000_000_000 - n0) };
    let exp = (es, en) >= (ds, dn);
    kani::cover!(exp, "expired case reachable");
    kani::cover!(!exp, "live case reachable");
    assert!(t.is_expired() == exp);
    assert!(!t.is_zero());
}

//@harness time_ttl_remaining props=C03,C04,C05,C20 target=Time::get_ttl bounded=no claim=for all t0 <= t1, d > 0: get_ttl() at t1 is d - (t1 - t0) while that is positive and Duration::ZERO afterwards (so it is at most d and never increases)
#[kani::proof]
#[kani::stub(std::time::SystemTime::now, fake_now)]
#[kani::unwind(3)]
fn time_ttl_remaining() {
    let (s0, n0) = any_instant();
    let (s1, n1) = any_instant();
    let (ds, dn) = any_ttl();
    kani::assume((s1, n1) >= (s0, n0));
    kani::assume(ds > 0 || dn > 0);
    set_now(s0, n0);
    let t = Time::now_with_expiration(Duration::new(ds, dn));
    set_now(s1, n1);
    let (es, en) = if n1 >= n0 { (s1 - s0, n1 - n0) } else { (s1 - s0 - 1, n1 + 1_000_000_000 - n0) };
    let ttl = t.get_ttl();
    if (es, en) >= (ds, dn) {
        assert!(ttl == Duration::ZERO);
    } else {
        // remaining = d - elapsed, in (secs, nanos)
        let (rs, rn) = if dn >= en { (ds - es, dn - en) } else { (ds - es - 1, dn + 1_000_000_000 - en) };
        assert!(ttl.as_secs() == rs && ttl.subsec_nanos() == rn);
        assert!(ttl <= Duration::new(ds, dn));
    }
}

//@harness time_without_ttl_never_expires props=C03,C04,C05,C20 target=Time::now bounded=no claim=a Time created by Time::now() (no TTL) is is_zero() at every later instant and reports get_ttl() == Duration::MAX; is_zero() <=> d == 0 for now_with_expiration(d)
#[kani::proof]
#[kani::stub(std::time::SystemTime::now, fake_now)]
#[kani::unwind(3)]
fn time_without_ttl_never_expires() {
    let (s0, n0) = any_instant();
    let (s1, n1) = any_instant();
    kani::assume((s1, n1) >= (s0, n0));
    set_now(s0, n0);
    let t = Time::now();
    let (ds, dn) = any_ttl();
    let u = Time::now_with_expiration(Duration::new(ds, dn));
    set_now(s1, n1);
    assert!(t.is_zero());
    assert!(t.get_ttl() == Duration::MAX);
    assert!(u.is_zero() == (ds == 0 && dn == 0));
}

//@harness time_deadline_second props=C03,C04,C05,C20 target=Time::unix bounded=no claim=for every Duration d: unix() is the whole second of created_at + d, s0 + ds + carry(n0 + dn >= 10^9), saturating at u64::MAX without panicking; storage_bucket is that + 1 saturating at i64::MAX; cleanup_bucket(now) is the current second
#[kani::proof]
#[kani::stub(std::time::SystemTime::now, fake_now)]
#[kani::unwind(3)]
fn time_deadline_second() {
    let (s0, n0) = any_instant();
    let (ds, dn) = any_ttl();
    set_now(s0, n0);
    let t = Time::now_with_expiration(Duration::new(ds, dn));
    let carry: u128 = if n0 as u64 + dn as u64 >= 1_000_000_000 { 1 } else { 0 };
    let deadline: u128 = s0 as u128 + ds as u128 + carry;
    // the deadline second, saturating at u64::MAX; its bucket is the next second, saturating at i64::MAX (never due)
    let want_unix: u64 = if deadline > u64::MAX as u128 { u64::MAX } else { deadline as u64 };
    let want_bucket: i64 = if want_unix as u128 + 1 > i64::MAX as u128 { i64::MAX } else { (want_unix + 1) as i64 };
    kani::cover!(deadline > u64::MAX as u128, "saturating deadline reachable");
    assert!(t.unix() == want_unix);
    assert!(storage_bucket(t) == want_bucket);
    let now = Time::now();
    assert!(cleanup_bucket(now) == s0 as i64);
}

//@harness time_due_bucket_implies_expired props=C03,C04,C05,C20 target=Time::is_expired bounded=no claim=(the axiom assumed in prelude/time_model.rs) if the storage bucket of a TTL deadline (deadline second + 1) is not after the current second then the entry is expired at that instant; so every entry found in a due bucket under its own deadline is really expired
#[kani::proof]
#[kani::stub(std::time::SystemTime::now, fake_now)]
#[kani::unwind(3)]
fn time_due_bucket_implies_expired() {
    let (s0, n0) = any_instant();
    let (s1, n1) = any_instant();
    let (ds, dn) = any_ttl();
    kani::assume((s1, n1) >= (s0, n0));
    kani::assume(ds > 0 || dn > 0);
    set_now(s0, n0);
    let t = Time::now_with_expiration(Duration::new(ds, dn));
    set_now(s1, n1);
    let now = Time::now();
    if storage_bucket(t) <= cleanup_bucket(now) {
        assert!(t.is_expired());
    }
    kani::cover!(storage_bucket(t) <= cleanup_bucket(now), "due case reachable");
}
