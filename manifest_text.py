NOTES = "exit 0 = all obligations of the property discharged on /repo's current tree; exit 1 + VIOLATION line = a contract obligation failed for a semantic reason (replay file names it and carries the verifier output / concrete input); exit 2 = undecided (lost anchor, unsupported construct, resource limit) and is never an alarm. See DESIGN.md."

NOT_APPLICABLE = {
    "C10": "barrier/termination of a blocking call across threads: no function contract within reach of Verus or Kani expresses blocking or cross-thread ordering (crossbeam-channel and wg are unverified dependencies; Kani has no threads). The sequential ingredient (Wait items call done() exactly once) is proved under C11/C08.",
    "C12": "deadlock freedom on the rendezvous stop channel, concurrent closers and worker exit are schedule/liveness facts; even the sequential post-close clauses need a constructed Cache (thread spawning, RandomState), outside both back ends.",
}

CLAIMS = {
    "C01": dict(
        text="Proof (Verus, unbounded): SampledLFU and the impl_policy methods (add, remove, update, clear, cap, cost, max_cost, update_max_cost) are extracted from src/policy.rs on every run and verified against contracts stating the representation invariant used == sum of per-entry charges, that every admission ends with used <= max_cost, that an oversize cost leaves the state untouched, and that add reads max_cost at entry. The invariant is established by the constructors/clear and preserved by every operation, so it holds after every finite history without enumerating any.",
        note="Assumes lock erasure (critical sections atomic), AtomicI64 max_cost stable inside a critical section, vstd's HashMap specs + an assumed spec for HashMap::get_mut, non-negative costs and totals below 2^60 (the property's own input range). Interleavings with the processor are not examined: each policy call is a step of the proved transition system.",
    ),
    "C07": dict(
        text="Proof (Verus, unbounded): the real body of add() (macro impl_policy, instantiated for LFUPolicy) is verified for all resident sets, cost vectors, max_cost, estimator states and incoming (key,cost): room => admitted without eviction; sample of at most 5 resident pairs (all if fewer); the scan picks the least popular sampled candidate; every victim is no more popular than the newcomer; evictions happen only while room is lacking; rejection only if some resident is strictly more popular.",
        note="TinyLFU::estimate is abstract here (a pure function of the estimator state; its body is under contract in the sketch/tinylfu units). HashMap iteration order is arbitrary (vstd iterator spec). Termination of the eviction loop is not proved (exec_allows_no_decreases_clause).",
    ),
    "C13": dict(
        text="Proof (Verus, unbounded over hashes, widths and histories): CountMinRow::{new,get,increment,reset,clear}, CountMinSketch::{new,increment,estimate,reset,clear}, Bloom::{new,add,contains,contains_or_add,reset,clear} and TinyLFU::{new,estimate,increment,increments,try_reset,reset,clear,contains} are extracted from src/sketch.rs, src/bbloom.rs, src/policy.rs and verified: a counter saturates at 15 and never spills into its neighbour, reset halves every counter, estimate is the minimum over the four rows plus one for the doorkeeper, aging fires exactly when the window reaches num_counters. The history clause (estimate >= min(16, #recorded since last aging); zero on fresh/cleared) is a set of lemmas proved by induction over those postconditions.",
        note="Bloom::set/is_set (raw pointers) are assumed in Verus and proved by Kani on the real code for the 512-bit layout (1024 in the thorough tier). Row seeds are arbitrary (RNG dropped, rule RS). f64 sizing of the doorkeeper is trusted to yield 1..=64 probes. u64::next_power_of_two is an assumed std spec.",
    ),
    "C14": dict(
        text="Proof of the deterministic part: Kani proves on the real unsafe code that set(i) makes exactly bit i visible to is_set (all indices, all array contents, 512-bit layout; 1024 in thorough); Verus proves over that contract that add(h) sets exactly the set_locs positions ((h>>shift) + i*low) & size, contains(h) holds iff all are set, bits are never cleared by add (no false negatives until reset/clear), and reset/clear empty the filter; get_size returns the power of two >= max(n,512). So the structure is a standard m-bit k-probe double-hashing Bloom filter with independent cells.",
        note="The false-positive RATE is not a contract: given independent cells, m >= entries and k probes it follows from the textbook analysis assuming uniformly distributed hashes (assumed, not checked; the lane-R oracle samples it only when searching for a counterexample). f64 sizing (ln, powf, ceil) is trusted. Little-endian target.",
    ),
    "C20": dict(
        text="Proof of panic-freedom of the data-structure layer for every accepted configuration: Verus checks every index, shift and arithmetic operation of the contracted functions under their well-formedness invariants, and that the constructors establish those invariants for every accepted parameter (CountMinSketch::new for every num_counters >= 1 incl. 1 and non powers of two, get_size/Bloom::new for every capacity, TinyLFU::new, SampledLFU for any max_cost); zero num_counters is rejected.",
        note="The three zero checks in finalize(), thread spawning, channels and buffer sizes are outside both back ends (their function bodies spawn threads); worker liveness and allocation failure are not decided. num_counters <= 2^62.",
    ),
}
