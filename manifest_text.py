NOTES = "exit 0 = all obligations of the property discharged on /repo's current tree; exit 1 + VIOLATION line = a contract obligation failed for a semantic reason (replay file names it and carries the verifier output / concrete input); exit 2 = undecided (lost anchor, unsupported construct, resource limit) and is never an alarm. See DESIGN.md."

NOT_APPLICABLE = {
    "C10": "barrier/termination of a blocking call across threads: no function contract within reach of Verus or Kani expresses blocking or cross-thread ordering (crossbeam-channel and wg are unverified dependencies; Kani has no threads). The sequential ingredient (Wait items call done() exactly once) is proved under C11/C08.",
    "C12": "deadlock freedom on the rendezvous stop channel, concurrent closers and worker exit are schedule/liveness facts; even the sequential post-close clauses need a constructed Cache (thread spawning, RandomState), outside both back ends.",
}

CLAIMS = {
    "C01": dict(
        text="Proof (Verus, unbounded): SampledLFU and the impl_policy methods (add, remove, update, clear, cap, cost, max_cost, update_max_cost) are extracted from src/policy.rs on every run and verified against contracts stating the representation invariant used == sum of per-entry charges, that every admission ends with used <= max_cost, that an oversize cost leaves the state untouched, and that add reads max_cost at entry. The invariant is established by the constructors/clear and preserved by every operation, so it holds after every finite history without enumerating any.",
        note="Assumes lock erasure (critical sections atomic), AtomicI64 max_cost stable inside a critical section, vstd's HashMap specs + an assumed spec for HashMap::get_mut, non-negative costs and totals below 2^60 (the property's own input range). Interleavings with the processor are not examined: each policy call is a step of the proved transition system.",
    ),
    "C07": dict(
        text="Proof (Verus, unbounded): the real body of add() (macro impl_policy, instantiated for LFUPolicy) is verified for all resident sets, cost vectors, max_cost, estimator states and incoming (key,cost): room => admitted without eviction; sample of at most 5 resident pairs (all if fewer); the scan picks the least popular sampled candidate; every victim is no more popular than the newcomer; evictions happen only while room is lacking; rejection only if some resident is strictly more popular.",
        note="TinyLFU::estimate is abstract here (a pure function of the estimator state; its body is under contract in the sketch/tinylfu units). HashMap iteration order is arbitrary (vstd iterator spec). Termination of the eviction loop is not proved (exec_allows_no_decreases_clause).",
    ),
}
