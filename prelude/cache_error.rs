// image of src/error.rs CacheError (shape checked against /repo on every run)
#[derive(Debug)]
pub enum CacheError {
    InvalidCountMinWidth(u64), InvalidSamples(usize), InvalidFalsePositiveRatio(f64), InvalidNumCounters, InvalidMaxCost,
    InvalidBufferSize, SendError(String), RecvError(String), UpdateError(String), InsertError(String), RemoveError(String),
    CleanupError(String), ChannelError(String),
}
