// ---- ASSUMED interfaces seen by the processor / cache glue (R9).  Each `ensures` below is a copy of a clause PROVED
// ---- on the real function in another unit (named in brackets); nothing here is executable code of /repo.
#[derive(Copy, Clone)]
pub struct PolicyPair { pub key: u64, pub cost: i64 }

pub struct CrateItem<V> { pub val: Option<V>, pub index: u64, pub conflict: u64, pub cost: i64, pub exp: Time }
impl<V> CrateItem<V> {
    pub fn new(index: u64, conflict: u64, cost: i64, val: Option<V>, ttl: Time) -> (r: Self)
        ensures r.val == val, r.index == index, r.conflict == conflict, r.cost == cost, r.exp == ttl,
    { Self { val, index, conflict, cost, exp: ttl } }
}

/// what the store holds under one index hash
pub struct SItem<V> { pub conflict: u64, pub value: V, pub expiration: Time }
pub struct SharedValue<T> { pub v: T }
impl<T> SharedValue<T> {
    #[verifier::external_body]
    pub fn into_inner(self) -> (r: T) ensures r == self.v { unimplemented!() }
}
pub struct StoreItem<V> { pub key: u64, pub conflict: u64, pub value: SharedValue<V>, pub expiration: Time }
pub enum UpdateResult<V> { NotExist(V), Reject(V), Conflict(V), Update(V) }

pub open spec fn compatible(conflict: u64, stored: u64) -> bool { conflict == 0 || conflict == stored }

/// Arc<ShardedMap<..>>: the clauses are those of unit u6_store ([store.insert.*], [store.update.*], [store.remove.*])
pub struct StoreModel<V> { pub view: Ghost<Map<u64, SItem<V>>>, pub item_size: usize }
impl<V> StoreModel<V> {
    /// the update validator: any predicate over (previous, new)
    pub uninterp spec fn veto_free(&self, prev: V, curr: V) -> bool;
    #[verifier::inline]
    pub open spec fn resident(&self, k: u64) -> bool { self.view@.contains_key(k) }
    /// the view after try_insert(key, val, conflict, expiration)
    pub open spec fn inserted(&self, key: u64, val: V, conflict: u64, expiration: Time) -> Map<u64, SItem<V>> {
        if !self.resident(key) || (compatible(conflict, self.view@[key].conflict) && self.veto_free(self.view@[key].value, val))
            { self.view@.insert(key, SItem { conflict, value: val, expiration }) } else { self.view@ }
    }
    #[verifier::external_body]
    pub fn try_insert(&mut self, key: u64, val: V, conflict: u64, expiration: Time) -> (res: Result<(), CacheError>)
        ensures res.is_ok(), final(self).item_size == old(self).item_size,
            // [store.insert.written] / [store.insert.colliding-key-isolated] / [store.insert.veto] / [store.insert.others-same]
            final(self).view@ == old(self).inserted(key, val, conflict, expiration),
            forall|a: V, b: V| final(self).veto_free(a, b) == old(self).veto_free(a, b),
    { unimplemented!() }
    #[verifier::external_body]
    pub fn try_remove(&mut self, key: &u64, conflict: u64) -> (res: Result<Option<StoreItem<V>>, CacheError>)
        ensures res.is_ok(), final(self).item_size == old(self).item_size,
            // [store.remove.noop] / [store.remove.taken] / [store.remove.others-same]
            !old(self).resident(*key) || !compatible(conflict, old(self).view@[*key].conflict) ==> res.unwrap().is_none() && final(self).view@ == old(self).view@,
            old(self).resident(*key) && compatible(conflict, old(self).view@[*key].conflict) ==> final(self).view@ == old(self).view@.remove(*key)
                && res.unwrap().is_some() && res.unwrap().unwrap().key == *key && res.unwrap().unwrap().conflict == old(self).view@[*key].conflict
                && res.unwrap().unwrap().value.v == old(self).view@[*key].value && res.unwrap().unwrap().expiration == old(self).view@[*key].expiration,
    { unimplemented!() }
    #[verifier::external_body]
    pub fn try_update(&mut self, key: u64, val: V, conflict: u64, expiration: Time) -> (res: Result<UpdateResult<V>, CacheError>)
        ensures res.is_ok(), final(self).item_size == old(self).item_size,
            // [store.update.absent] / [store.update.colliding-key-isolated] / [store.update.veto] / [store.update.written]
            !old(self).resident(key) ==> (res.unwrap() matches UpdateResult::NotExist(v) && v == val && final(self).view@ == old(self).view@),
            old(self).resident(key) && !compatible(conflict, old(self).view@[key].conflict) ==> (res.unwrap() matches UpdateResult::Conflict(v) && v == val && final(self).view@ == old(self).view@),
            old(self).resident(key) && compatible(conflict, old(self).view@[key].conflict) && !old(self).veto_free(old(self).view@[key].value, val) ==> (res.unwrap() matches UpdateResult::Reject(v) && v == val && final(self).view@ == old(self).view@),
            old(self).resident(key) && compatible(conflict, old(self).view@[key].conflict) && old(self).veto_free(old(self).view@[key].value, val) ==> (res.unwrap() matches UpdateResult::Update(prev) && prev == old(self).view@[key].value
                && final(self).view@ == old(self).view@.insert(key, SItem { conflict: old(self).view@[key].conflict, value: val, expiration })),
    { unimplemented!() }
    #[verifier::external_body]
    pub fn item_size(&self) -> (r: usize) ensures r == self.item_size { unimplemented!() }
    /// ShardedMap::hasher(): a clone of the configured BuildHasher (only handed on to HashMap::with_hasher)
    #[verifier::external_body]
    pub fn hasher<S>(&self) -> (r: S) { unimplemented!() }
}

/// Arc<LFUPolicy<S>>: the clauses are those of unit u4_policy ([add.*], [pol.upd.*], [pol.rm.*])
pub struct PolicyModel { pub charges: Ghost<Map<u64, i64>>, pub last_add: Ghost<(Seq<PolicyPair>, bool)>, pub used: Ghost<int>, pub mc: Ghost<int> }
impl PolicyModel {
    #[verifier::inline]
    pub open spec fn charged(&self, k: u64) -> bool { self.charges@.contains_key(k) }
    #[verifier::external_body]
    pub fn add(&mut self, key: u64, cost: i64) -> (res: (Option<Vec<PolicyPair>>, bool))
        ensures
            // ghost record of the decision, so that callers' postconditions can name it
            final(self).last_add@ == ((if res.0.is_some() { res.0.unwrap()@ } else { Seq::<PolicyPair>::empty() }), res.1),
            // [add.room] below capacity a fresh key is admitted without sampling or eviction; [add.config]
            !old(self).charged(key) && cost <= old(self).mc@ && old(self).used@ + cost <= old(self).mc@ ==> res.1 && res.0.is_none() && final(self).charges@ == old(self).charges@.insert(key, cost) && final(self).used@ == old(self).used@ + cost,
            final(self).mc@ == old(self).mc@,
            res.1 ==> !old(self).charged(key) && final(self).charges@.contains_pair(key, cost),                                         // [add.admitted] [add.charge]
            !res.1 ==> (final(self).charged(key) == old(self).charged(key)),                                                              // [add.oversize] [add.resident] [add.notadded]
            !res.1 && old(self).charged(key) ==> res.0.is_none(),                                                                        // [add.resident] / [add.oversize]
            forall|k: u64| #[trigger] final(self).charges@.contains_key(k) && k != key ==> old(self).charges@.contains_pair(k, final(self).charges@[k]),  // [add.frame]
            res.0.is_some() ==> forall|i: int| 0 <= i < res.0.unwrap()@.len() ==> old(self).charges@.contains_pair((#[trigger] res.0.unwrap()@[i]).key, res.0.unwrap()@[i].cost) && !final(self).charged(res.0.unwrap()@[i].key),  // [add.victim-resident]
            forall|k: u64| #[trigger] old(self).charges@.contains_key(k) && !final(self).charged(k) ==> res.0.is_some() && exists|i: int| 0 <= i < res.0.unwrap()@.len() && #[trigger] res.0.unwrap()@[i].key == k,  // [add.removed-are-victims]
    { unimplemented!() }
    #[verifier::external_body]
    pub fn update(&mut self, k: &u64, cost: i64)
        ensures final(self).charges@ == (if old(self).charged(*k) { old(self).charges@.insert(*k, cost) } else { old(self).charges@ }), final(self).last_add == old(self).last_add,    // [pol.upd.map]
    { unimplemented!() }
    #[verifier::external_body]
    pub fn remove(&mut self, k: &u64) ensures final(self).charges@ == old(self).charges@.remove(*k), final(self).last_add == old(self).last_add { unimplemented!() }                 // [pol.rm.map]
    #[verifier::external_body]
    pub fn max_cost(&self) -> (r: i64) ensures r == self.mc@ { unimplemented!() }                                                                                                 // [pol.max_cost]
    #[verifier::external_body]
    pub fn update_max_cost(&mut self, mc: i64) ensures final(self).mc@ == mc, final(self).charges == old(self).charges, final(self).used == old(self).used, final(self).last_add == old(self).last_add { unimplemented!() }   // [pol.umc.set] [pol.umc.frame]
    #[verifier::external_body]
    pub fn contains(&self, k: &u64) -> (r: bool) ensures r == self.charged(*k) { unimplemented!() }                                                                                  // [pol.contains]
    #[verifier::external_body]
    pub fn cost(&self, k: &u64) -> (r: i64) ensures r == (if self.charged(*k) { self.charges@[*k] } else { -1i64 }) { unimplemented!() }                                             // [pol.cost]
}

/// the user's CacheCallback behind an Arc: every call is appended to a ghost log
pub enum Ev<V> { Exit(Option<V>), Evict(CrateItem<V>), Reject(CrateItem<V>) }
pub struct CallbackModel<V> { pub log: Ghost<Seq<Ev<V>>> }
impl<V> CallbackModel<V> {
    #[verifier::external_body]
    pub fn on_exit(&mut self, val: Option<V>) ensures final(self).log@ == old(self).log@.push(Ev::Exit(val)) { unimplemented!() }
    #[verifier::external_body]
    pub fn on_evict(&mut self, item: CrateItem<V>) ensures final(self).log@ == old(self).log@.push(Ev::Evict(item)) { unimplemented!() }
    #[verifier::external_body]
    pub fn on_reject(&mut self, item: CrateItem<V>) ensures final(self).log@ == old(self).log@.push(Ev::Reject(item)) { unimplemented!() }
}

/// wg::WaitGroup handed over in Item::Wait: `done()` is its only use here
pub struct WaitGroup { pub id: u64 }
impl WaitGroup {
    #[verifier::external_body]
    pub fn done(&self) { unimplemented!() }
}

/// std::time::Duration as used by the glue: only `is_zero()` is consulted
#[verifier::external_body]
#[derive(Copy, Clone)]
pub struct Duration { _p: u8 }
/// receiving ends of the processor's channels (only stored by CacheProcessor::new)
pub struct RxModel { pub _p: u8 }
impl Duration {
    pub uninterp spec fn zero(&self) -> bool;
    #[verifier::external_body]
    pub fn is_zero(&self) -> (r: bool) ensures r == self.zero() { unimplemented!() }
}
/// `Duration::ZERO`
#[verifier::external_body]
pub fn vx_duration_zero() -> (r: Duration) ensures r.zero() { unimplemented!() }
impl Time {
    pub uninterp spec fn ttl_of(&self) -> Duration;
    /// Time::now_with_expiration(d) (proved by Kani: is_zero() <=> d == 0)
    #[verifier::external_body]
    pub fn now_with_expiration(duration: Duration) -> (r: Time) ensures r.zero() == duration.zero(), r.ttl_of() == duration { unimplemented!() }
    #[verifier::external_body]
    pub fn get_ttl(&self) -> (r: Duration) { unimplemented!() }
}

/// handle returned by store.get / get_mut (the guard + reference packaging is trusted, R12)
pub struct ValueRef<V> { pub item: Ghost<SItem<V>> }
pub open spec fn live(t: Time) -> bool { t.zero() || !t.expired() }
impl<V> StoreModel<V> {
    // [store.get.hit-iff] [store.get.same-key]
    #[verifier::external_body]
    pub fn get(&self, key: &u64, conflict: u64) -> (r: Option<ValueRef<V>>)
        ensures r.is_some() <==> self.resident(*key) && compatible(conflict, self.view@[*key].conflict) && live(self.view@[*key].expiration),
            r.is_some() ==> r.unwrap().item@ == self.view@[*key],
    { unimplemented!() }
    #[verifier::external_body]
    pub fn get_mut(&self, key: &u64, conflict: u64) -> (r: Option<ValueRef<V>>)
        ensures r.is_some() <==> self.resident(*key) && compatible(conflict, self.view@[*key].conflict) && live(self.view@[*key].expiration),
            r.is_some() ==> r.unwrap().item@ == self.view@[*key],
    { unimplemented!() }
    // [store.len]: the number of resident entries
    #[verifier::external_body]
    pub fn len(&self) -> (r: usize) ensures r == self.view@.dom().len() { unimplemented!() }
    // [store.expiration]
    #[verifier::external_body]
    pub fn expiration(&self, key: &u64) -> (r: Option<Time>)
        ensures r == (if self.resident(*key) { Some(self.view@[*key].expiration) } else { None::<Time> }),
    { unimplemented!() }
}

/// the user's Coster and KeyBuilder: arbitrary pure functions
pub struct CosterModel<V> { pub _p: Ghost<V> }
impl<V> CosterModel<V> {
    pub uninterp spec fn cost_of(&self, v: &V) -> i64;
    #[verifier::external_body]
    pub fn cost(&self, v: &V) -> (r: i64) ensures r == self.cost_of(v) { unimplemented!() }
}
pub struct KeyBuilderModel<K> { pub _p: Ghost<K> }
impl<K> KeyBuilderModel<K> {
    pub uninterp spec fn hash_of<Q: ?Sized>(&self, k: &Q) -> (u64, u64);
    #[verifier::external_body]
    pub fn build_key<Q: ?Sized>(&self, k: &Q) -> (r: (u64, u64)) ensures r == self.hash_of(k) { unimplemented!() }
}

/// Arc<RingStripe<S>> as seen from Cache::get: every pushed index hash is logged
pub struct GetBufModel { pub pushed: Ghost<Seq<u64>> }
impl GetBufModel {
    #[verifier::external_body]
    pub fn push(&mut self, item: u64) ensures final(self).pushed@ == old(self).pushed@.push(item) { unimplemented!() }
}

/// Arc<LFUPolicy<S>> as seen from RingStripe::push: batches handed to the policy queue, in order.  LFUPolicy::push itself
/// (a `select!` that keeps or drops the batch and counts it once under KeepGets / DropGets) is TRUSTED.
pub struct PolicyQueueModel { pub batches: Ghost<Seq<Seq<u64>>> }
impl PolicyQueueModel {
    #[verifier::external_body]
    pub fn push(&mut self, keys: Vec<u64>) -> (r: Result<bool, CacheError>) ensures final(self).batches@ == old(self).batches@.push(keys@) { unimplemented!() }
}

/// TinyLFU as seen from the policy worker: batches applied, in order (its `increments` is under contract in u1_estimator)
pub struct AdmitModel { pub applied: Ghost<Seq<Seq<u64>>> }
impl AdmitModel {
    #[verifier::external_body]
    pub fn increments(&mut self, khs: Vec<u64>) ensures final(self).applied@ == old(self).applied@.push(khs@) { unimplemented!() }
}
pub struct PolicyInnerModel { pub admit: AdmitModel }
#[derive(Debug)]
pub struct RecvError { pub _p: u8 }

/// error texts (rule RF replaces `format!(..)`, used only inside error values)
#[verifier::external_body]
pub fn vx_error_text() -> (r: String) { unimplemented!() }
/// crossbeam Sender<Item<V>> of the bounded insert buffer: what was queued, in order (a full buffer refuses the item)
pub struct TrySendError { pub _p: u8 }
/// crossbeam tick message
pub struct Instant { pub _p: u8 }
impl<V> StoreModel<V> {
    // the sweep as seen from the processor: [cleanup.survivors-untouched] [cleanup.handed-out] [cleanup.handed-out-once]
    // [cleanup.removed-are-handed-out] [cleanup.charge-released] [cleanup.other-charges-kept] (proved in u6_store for both flavours)
    #[verifier::external_body]
    pub fn try_cleanup(&mut self, policy: &mut PolicyModel) -> (res: Result<Vec<CrateItem<V>>, CacheError>)
        ensures res.is_ok(), final(self).item_size == old(self).item_size,
            forall|k: u64| #[trigger] final(self).view@.contains_key(k) ==> old(self).view@.contains_key(k) && final(self).view@[k] == old(self).view@[k],
            forall|i: int| 0 <= i < res.unwrap()@.len() ==> old(self).view@.contains_key((#[trigger] res.unwrap()@[i]).index) && !final(self).view@.contains_key(res.unwrap()@[i].index)
                && res.unwrap()@[i].val == Some(old(self).view@[res.unwrap()@[i].index].value) && res.unwrap()@[i].conflict == old(self).view@[res.unwrap()@[i].index].conflict
                && res.unwrap()@[i].exp == old(self).view@[res.unwrap()@[i].index].expiration,
            forall|i: int, j: int| 0 <= i < j < res.unwrap()@.len() ==> res.unwrap()@[i].index != res.unwrap()@[j].index,
            forall|k: u64| #[trigger] old(self).view@.contains_key(k) && !final(self).view@.contains_key(k) ==> !final(policy).charges@.contains_key(k) && exists|i: int| 0 <= i < res.unwrap()@.len() && (#[trigger] res.unwrap()@[i]).index == k,
            forall|k: u64| #[trigger] final(policy).charges@.contains_key(k) ==> old(policy).charges@.contains_pair(k, final(policy).charges@[k]),
            forall|k: u64| #[trigger] old(policy).charges@.contains_key(k) && !final(policy).charges@.contains_key(k) ==> old(self).view@.contains_key(k),
            // [cleanup.charge-released-only-with-its-entry]
            forall|k: u64| #[trigger] old(policy).charges@.contains_key(k) && !final(policy).charges@.contains_key(k) ==> !final(self).view@.contains_key(k),
    { unimplemented!() }
}

/// the unbounded `clear` signal channel to the processor
pub struct SignalTxModel { pub sent: Ghost<nat> }
pub struct SendError { pub _p: u8 }
impl SignalTxModel {
    #[verifier::external_body]
    pub fn send(&mut self, msg: ()) -> (r: Result<(), SendError>)
        ensures r.is_ok() ==> final(self).sent@ == old(self).sent@ + 1, r.is_err() ==> final(self).sent@ == old(self).sent@,
    { unimplemented!() }
}
impl PolicyModel {
    // [pol.clear.empty] (u4_policy)
    #[verifier::external_body]
    pub fn clear(&mut self) ensures final(self).charges@ == Map::<u64, i64>::empty() { unimplemented!() }
}
impl<V> StoreModel<V> {
    // [store.clear.empty] (u6_store)
    #[verifier::external_body]
    pub fn clear(&mut self) ensures final(self).view@ == Map::<u64, SItem<V>>::empty(), final(self).item_size == old(self).item_size { unimplemented!() }
}
