// ---- TRUSTED (assumed specification of a std function vstd does not cover) ------------------------
// std::collections::HashMap::get_mut: returns a mutable reference to the value stored under `k`
// (None and map unchanged if absent); whatever is written through it is what the map holds afterwards.
pub uninterp spec fn borrowed_key_updated<Key, Value, Q: ?Sized>(old_m: Map<Key, Value>, new_m: Map<Key, Value>, k: &Q, v: Value) -> bool;
pub broadcast axiom fn axiom_deref_key_updated<Q, Value>(old_m: Map<Q, Value>, new_m: Map<Q, Value>, k: &Q, v: Value)
    ensures #[trigger] borrowed_key_updated::<Q, Value, Q>(old_m, new_m, k, v) <==> (old_m.contains_key(*k) && new_m == old_m.insert(*k, v));
pub assume_specification<'a, Key, Value, S, A: std::alloc::Allocator, Q: ?Sized>[ HashMap::<Key, Value, S, A>::get_mut::<Q> ](
    m: &'a mut HashMap<Key, Value, S, A>, k: &Q) -> (r: Option<&'a mut Value>)
    where Key: Borrow<Q> + Hash + Eq, Q: Hash + Eq, S: BuildHasher
    ensures
        obeys_key_model::<Key>() && builds_valid_hashers::<S>() ==> {
            match r {
                Some(v) => contains_borrowed_key(old(m)@, k)
                    && maps_borrowed_key_to_value(old(m)@, k, *v)
                    && borrowed_key_updated(old(m)@, final(m)@, k, *final(v)),
                None => !contains_borrowed_key(old(m)@, k) && final(m)@ == old(m)@,
            }
        };
