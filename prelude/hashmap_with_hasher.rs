// ---- TRUSTED (assumed specification of a std function vstd does not cover) ------------------------
// HashMap::with_hasher builds an empty map.
pub assume_specification<Key, Value, S>[ HashMap::<Key, Value, S>::with_hasher ](hash_builder: S) -> (m: HashMap<Key, Value, S>)
    ensures m@ == Map::<Key, Value>::empty();
