#![feature(allocator_api)]
#![allow(unused_imports, unused_variables, unused_mut, dead_code, unused_parens, redundant_semicolons, unused_must_use, unused_assignments)]
use vstd::prelude::*;
use std::collections::HashMap;
use std::hash::{BuildHasher, Hash};
use std::borrow::Borrow;
use vstd::std_specs::hash::*;
use std::mem;
