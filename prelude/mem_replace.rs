// ---- TRUSTED (assumed specification of a core function vstd does not cover) ------------------------
pub assume_specification<T>[ core::mem::replace::<T> ](dest: &mut T, src: T) -> (r: T)
    ensures *final(dest) == src, r == *old(dest);
