// ---- TRUSTED model (rule R9): `Arc<Metrics>` — striped atomics behind a BTreeMap — is modelled as an
// owned ledger of unbounded integer counters.  `add` is the only writer used by the code under contract.
// Metrics::{add,is_op} themselves (src/metrics.rs:119-152, 404-409) are NOT verified here.
#[derive(Copy, Clone, PartialEq, Eq)]
pub enum MetricType { Hit, Miss, KeyAdd, KeyUpdate, KeyEvict, CostAdd, CostEvict, DropSets, RejectSets, DropGets, KeepGets, DoNotUse }

pub struct Metrics { pub op: bool, pub ctr: Ghost<Map<MetricType, int>>, pub life: Ghost<Seq<i64>> }
impl Metrics {
    pub open spec fn cnt(&self, t: MetricType) -> int { if self.ctr@.contains_key(t) { self.ctr@[t] } else { 0 } }
    #[verifier::external_body]
    pub fn add(&mut self, typ: MetricType, hash: u64, delta: u64) -> (r: bool)
        ensures r == old(self).op, final(self).op == old(self).op, final(self).life == old(self).life,
            forall|t: MetricType| #[trigger] final(self).cnt(t) == old(self).cnt(t) + (if t == typ && old(self).op { delta as int } else { 0int }),
    { unimplemented!() }
    /// Metrics::clear (TRUSTED: MetricsInner::clear stores 0 into every stripe and clears the histogram)
    #[verifier::external_body]
    pub fn clear(&mut self)
        ensures final(self).op == old(self).op, forall|t: MetricType| #[trigger] final(self).cnt(t) == 0, final(self).life@.len() == 0,
    { unimplemented!() }
    #[verifier::external_body]
    pub fn is_op(&self) -> (r: bool) ensures r == self.op { unimplemented!() }
    /// Arc<Metrics>::clone(): the same ledger (R9)
    #[verifier::external_body]
    pub fn clone(&self) -> (r: Self) ensures r == *self { unimplemented!() }
    /// `Metrics::Noop` / `Metrics::new()`: the ledger that records nothing
    #[verifier::external_body]
    pub fn vx_noop() -> (r: Self) ensures !r.op, forall|t: MetricType| #[trigger] r.cnt(t) == 0, r.life@.len() == 0 { unimplemented!() }
    #[verifier::external_body]
    pub fn track_eviction(&mut self, num_seconds: i64)
        ensures final(self).op == old(self).op, final(self).ctr == old(self).ctr,
            final(self).life@ == (if old(self).op { old(self).life@.push(num_seconds) } else { old(self).life@ }),
    { unimplemented!() }
}
