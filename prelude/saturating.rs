// ---- TRUSTED std specifications: i64::saturating_add (vstd covers the unsigned types only) -------------------------------------
pub assume_specification[ i64::saturating_add ](x: i64, y: i64) -> (r: i64)
    ensures r == (if x + y > i64::MAX { i64::MAX as int } else if x + y < i64::MIN { i64::MIN as int } else { x + y });
