// ---- TRUSTED model of src/ttl.rs `Time {d: Duration, created_at: SystemTime}` -------------------------
// Opaque in Verus (std::time is outside its reach).  The three observers used by the map-level code are
// functions of the value (`is_zero`, `unix`) or of the value and the clock reading of that call (`is_expired`);
// their real bodies are verified by Kani against a stubbed clock (kani/ttl.rs).
#[verifier::external_body]
#[derive(Copy, Clone)]
pub struct Time { _p: u8 }
// ASSUMED clock arithmetic (PROVED on the real Time by Kani, harness time_due_bucket_implies_expired): a deadline whose
// storage bucket (deadline second + 1) is not after the current second has passed.
pub broadcast axiom fn axiom_due_implies_expired(t: Time)
    ensures !t.zero() && bucket_of(t) <= clock_secs() ==> #[trigger] t.expired();

/// the expiry bucket of a deadline: the second after the deadline second, saturating at i64::MAX (a bucket that never comes
/// due) for deadlines at or beyond i64::MAX seconds — any Duration is a legal TTL, Duration::MAX included
pub open spec fn bucket_of(t: Time) -> i64 {
    if t.deadline_secs() >= i64::MAX as u64 { i64::MAX } else { (t.deadline_secs() + 1) as i64 }
}

/// the whole second of the clock reading of the call under verification
pub uninterp spec fn clock_secs() -> u64;
impl Time {
    pub uninterp spec fn zero(&self) -> bool;          // d == 0: the entry never expires
    pub uninterp spec fn deadline_secs(&self) -> u64;  // whole seconds since the epoch of created_at + d
    pub uninterp spec fn expired(&self) -> bool;       // clock - created_at >= d, at the clock reading of this call
    #[verifier::external_body]
    pub fn is_zero(&self) -> (r: bool) ensures r == self.zero() { unimplemented!() }
    #[verifier::external_body]
    pub fn unix(&self) -> (r: u64) ensures r == self.deadline_secs() { unimplemented!() }
    #[verifier::external_body]
    pub fn is_expired(&self) -> (r: bool) ensures r == self.expired() { unimplemented!() }
    /// `self.elapsed().as_secs()` (std Duration is outside Verus): seconds since creation at the clock reading of the call
    #[verifier::external_body]
    pub fn elapsed_secs(&self) -> (r: u64) ensures r < 0x0100_0000_0000 { unimplemented!() }
    /// Time::now(): no TTL, created at the current clock reading (assumed below 2^40 seconds, as in the Kani harnesses)
    #[verifier::external_body]
    pub fn now() -> (r: Time) ensures r.zero(), r.deadline_secs() == clock_secs(), r.deadline_secs() < 0x0100_0000_0000 { unimplemented!() }
}
