// Executable oracle of the glue-level contracts: the real sync Cache driven through its public API with quiescence
// (wait()) after every operation, compared with a model.  Child module of `cache::sync` (reads policy/store internals to
// observe charges).  Used to obtain concrete failing inputs; sampling, never counted as proof.
use super::*;
use crate::{CacheCallback as CB_, Coster as Coster_, Item as CItem, TransparentKeyBuilder, UpdateValidator as UV_};
use std::sync::Mutex as StdMutex;
include!("/verif/replay/common.rs");

#[derive(Clone, Debug, PartialEq)]
enum Ev { Exit(Option<u64>), Evict(u64, Option<u64>, i64), Reject(u64, Option<u64>, i64) }
#[derive(Clone)]
struct Rec(Arc<StdMutex<Vec<Ev>>>);
impl CB_ for Rec {
    type Value = u64;
    fn on_exit(&self, v: Option<u64>) { self.0.lock().unwrap().push(Ev::Exit(v)); }
    fn on_evict(&self, i: CItem<u64>) { self.0.lock().unwrap().push(Ev::Evict(i.index, i.val, i.cost)); }
    fn on_reject(&self, i: CItem<u64>) { self.0.lock().unwrap().push(Ev::Reject(i.index, i.val, i.cost)); }
}
/// accepts a replacement only if the new value is not smaller than the previous one (when enabled)
struct Mono(bool);
impl UV_ for Mono {
    type Value = u64;
    fn should_update(&self, prev: &u64, curr: &u64) -> bool { !self.0 || *curr >= *prev }
}
struct ValueCoster;
impl Coster_ for ValueCoster {
    type Value = u64;
    fn cost(&self, v: &u64) -> i64 { (*v % 7) as i64 } // 0..6: an entry may be charged nothing at all
}

/// index = the key itself; conflict hash 0 (the transparent builder's) or a non-zero function of the key (like the default builder)
struct OracleKb(bool);
impl crate::KeyBuilder for OracleKb {
    type Key = u64;
    fn hash_index<Q>(&self, key: &Q) -> u64 where u64: core::borrow::Borrow<Q>, Q: core::hash::Hash + Eq + ?Sized {
        let mut h = crate::TransparentHasher::default();
        key.hash(&mut h);
        std::hash::Hasher::finish(&h)
    }
    fn hash_conflict<Q>(&self, key: &Q) -> u64 where u64: core::borrow::Borrow<Q>, Q: core::hash::Hash + Eq + ?Sized {
        if !self.0 { return 0; }
        let mut h = crate::TransparentHasher::default();
        key.hash(&mut h);
        std::hash::Hasher::finish(&h).wrapping_mul(31).wrapping_add(7)
    }
}

/// every key maps to index (k % 4) with conflict hash k + 1: distinct keys collide on the index
#[derive(Default)]
struct Colliding;
impl crate::KeyBuilder for Colliding {
    type Key = u64;
    fn hash_index<Q>(&self, key: &Q) -> u64 where u64: core::borrow::Borrow<Q>, Q: core::hash::Hash + Eq + ?Sized {
        let mut h = crate::TransparentHasher::default();
        key.hash(&mut h);
        std::hash::Hasher::finish(&h) % 4
    }
    fn hash_conflict<Q>(&self, key: &Q) -> u64 where u64: core::borrow::Borrow<Q>, Q: core::hash::Hash + Eq + ?Sized {
        let mut h = crate::TransparentHasher::default();
        key.hash(&mut h);
        std::hash::Hasher::finish(&h) + 1
    }
}

#[test]
fn cache_at_quiescence_matches_model() {
    if !only("cache_at_quiescence_matches_model") { return; }
    guarded("cache_at_quiescence_matches_model", || {
    let mut rng = Rng::new(31);
    for round in 0..iters(60) {
        let max_cost = 6 + rng.below(30) as i64;
        let ignore_internal = rng.below(4) != 0;
        let veto = rng.below(3) == 0;
        let events = Arc::new(StdMutex::new(Vec::new()));
        let nz_conflict = rng.below(2) == 0;
        let c: Cache<u64, u64, OracleKb, ValueCoster, Mono, Rec> = Cache::builder(200, max_cost)
            .set_key_builder(OracleKb(nz_conflict))
            .set_coster(ValueCoster)
            .set_update_validator(Mono(veto))
            .set_callback(Rec(events.clone()))
            .set_metrics(true)
            .set_ignore_internal_cost(ignore_internal)
            .set_buffer_items(4)
            .finalize()
            .unwrap();
        let item_size = c.store.item_size() as i64;
        let internal = |cost: i64| if ignore_internal { cost } else { cost + item_size };
        let nkeys = 4 + rng.below(12);
        // model: what the last accepted write under each key was (value, charged cost); None = may be absent
        let mut last: std::collections::HashMap<u64, (u64, i64)> = Default::default();
        let mut has_ttl: std::collections::HashMap<u64, bool> = Default::default(); // deadline of the last applied write: 1 h or none
        let mut cleared = false; // a clear() happened in this round
        let mut c04_applies = true; // false once the workload stopped fitting (an entry of its own exceeded max_cost, or the total did)
        let mut accepted: Vec<u64> = Vec::new(); // every value handed to an insert that returned true (values are unique)
        let mut next_val = 1000u64 * (round + 1);
        let mut low_val = 1000u64 * (round + 1) - 1; // a second, decreasing stream of unique values: these are what a monotone validator vetoes
        let mut lookups = 0u64;
        let mut script: Vec<String> = vec![format!("Cache(num_counters=200, max_cost={}, ignore_internal_cost={}, monotone_validator={}, conflict_hash={})", max_cost, ignore_internal, veto, if nz_conflict { "31k+7" } else { "0" })];
        let ctx = |s: &Vec<String>| { let n = s.len(); format!("{} .. {}", s[0], s[n.saturating_sub(10).max(1)..].join("; ")) };
        macro_rules! bad { ($clause:expr, $props:expr, $f:expr, $obs:expr, $req:expr) => {{ fail("cache_at_quiescence_matches_model", $clause, $props, $f, ctx(&script), $obs, $req); let _ = c.close(); return; }}; }
        for _ in 0..(15 + rng.below(40)) {
            let k = rng.below(nkeys);
            let op = rng.below(12);
            let resident_before = c.store.expiration(&k).is_some();
            let prev_val = c.get(&k).map(|v| *v.value());
            if prev_val.is_some() || true { lookups += 1; }
            match op {
                0 | 1 => { c.remove(&k); script.push(format!("remove({})", k)); last.remove(&k); has_ttl.remove(&k); }
                2 => {
                    next_val += 1;
                    let cost = 1 + rng.below(3) as i64;
                    let r = c.insert_if_present(k, next_val, cost);
                    script.push(format!("insert_if_present({}, {}, cost {}) -> {}", k, next_val, cost, r));
                    if !resident_before && r { bad!("C09:cache.insert.if-present-on-absent-is-false", &["C09"], "Cache::try_insert_in", "returned true on an absent key".into(), "false".into()); }
                    let vetoed = veto && prev_val.map_or(false, |p| next_val < p);
                    if r { accepted.push(next_val); if !vetoed { last.insert(k, (next_val, internal(cost))); has_ttl.insert(k, false); } }
                }
                3 => { let mc = 4 + rng.below(40) as i64; c.update_max_cost(mc); script.push(format!("update_max_cost({})", mc)); }
                4 => {
                    if rng.below(4) == 0 { cleared = true; c.clear().unwrap(); script.push("clear()".into()); last.clear(); accepted.clear(); has_ttl.clear(); c04_applies = true;
                        // the clear signal travels on its own channel and the processor picks among ready channels at random: let it
                        // consume the signal before going on, so that this oracle stays on the decided (quiescent) side of C11
                        // (the race itself is probed by `insert_after_clear_is_kept`)
                        while !c.clear_tx.is_empty() { std::thread::yield_now(); }
                        // ... and let the cleaner finish draining: a Wait marker may be answered by the cleaner itself, which then
                        // loops once more before returning, so one wait() does not prove the processor is back in its main loop
                        // (soak seeds 11 and 17 hit exactly that window: finding F10 again, not a C04/C07 failure)
                        for _ in 0..3 { c.wait().unwrap(); std::thread::sleep(Duration::from_millis(2)); }
                        events.lock().unwrap().clear(); lookups = 0;
                        if c.len() != 0 || (c.policy.max_cost() - c.policy.cap()) != 0 { bad!("C11:store.clear.empty", &["C11", "C06"], "Cache::clear", format!("len={} used={}", c.len(), (c.policy.max_cost() - c.policy.cap())), "0 / 0".into()); }
                        if [c.metrics.get_hits(), c.metrics.get_misses(), c.metrics.get_keys_added(), c.metrics.get_keys_updated(), c.metrics.get_keys_evicted(), c.metrics.get_cost_added(), c.metrics.get_cost_evicted(),
                            c.metrics.get_sets_dropped(), c.metrics.get_sets_rejected(), c.metrics.get_gets_dropped(), c.metrics.get_gets_kept()].iter().any(|x| *x != Some(0)) { bad!("C11:store.clear.empty", &["C11", "C17"], "Cache::clear", "metrics not reset".into(), "all counters 0".into()); }
                        continue; }
                }
                _ => {
                    next_val += 1;
                    let stale = veto && rng.below(4) == 0;
                    let fresh_val = next_val;
                    let next_val = if stale { low_val -= 1; low_val } else { fresh_val };
                    let cost = if rng.below(5) == 0 { 0 } else { 1 + rng.below(5) as i64 };
                    let with_ttl = rng.below(3) == 0;
                    let r = if with_ttl { c.insert_with_ttl(k, next_val, cost, Duration::from_secs(3600)) } else { c.insert(k, next_val, cost) };
                    script.push(format!("insert{}({}, {}, cost {}) -> {}", if with_ttl { "_with_ttl[1h]" } else { "" }, k, next_val, cost, r));
                    if r { accepted.push(next_val); }
                    let charged = internal(if cost == 0 { (next_val % 7) as i64 } else { cost });
                    let vetoed = veto && prev_val.map_or(false, |p| next_val < p);
                    if charged > c.policy.max_cost() { c04_applies = false; }
                    if r && !vetoed { last.insert(k, (next_val, charged)); has_ttl.insert(k, with_ttl); }
                }
            }
            if let Err(e) = c.wait() { bad!("C06:glue.ok", &["C06"], "Cache::wait", format!("wait failed: {}", e), "Ok".into()); }
            // ---- observations at quiescence -------------------------------------------------------------------
            let mc = c.policy.max_cost();
            let used = mc - c.policy.cap();
            let charges: std::collections::BTreeMap<u64, i64> = (0..nkeys).filter(|kk| c.policy.contains(kk)).map(|kk| (kk, c.policy.cost(&kk))).collect();
            let mut resident: std::collections::BTreeMap<u64, u64> = Default::default();
            for kk in 0..nkeys { if c.store.expiration(&kk).is_some() { let v = c.store.get(&kk, c.key_to_hash.build_key(&kk).1).map(|v| *v.value()); resident.insert(kk, v.unwrap_or(0)); } }
            if resident.keys().collect::<Vec<_>>() != charges.keys().collect::<Vec<_>>() {
                bad!("C06:glue.new.agree", &["C06", "C02"], "CacheProcessor::handle_item", format!("resident {:?} != charged {:?}", resident.keys().collect::<Vec<_>>(), charges.keys().collect::<Vec<_>>()), "resident entries == charged entries".into()); }
            if c.len() != resident.len() { bad!("C06:glue.new.agree", &["C06"], "Cache::len", format!("len()={} resident={}", c.len(), resident.len()), "equal".into()); }
            if used != charges.values().sum::<i64>() { bad!("C01:add.wf", &["C01"], "LFUPolicy", format!("used={} sum={}", used, charges.values().sum::<i64>()), "equal".into()); }
            let _ = mc;
            for (kk, v) in &resident {
                match last.get(kk) {
                    Some((lv, lc)) => {
                        if lv != v { bad!("C02:store.update.written", &["C02", "C09"], "Cache::get", format!("key {} holds {} ", kk, v), format!("last accepted write {}", lv)); }
                        if charges.get(kk) != Some(lc) { bad!("C16:glue.new.charge", &["C16"], "CacheProcessor::handle_item", format!("key {} charged {:?}", kk, charges.get(kk)), format!("{}", lc)); }
                    }
                    None => { if !accepted.contains(v) { bad!("C02:store.get.same-key", &["C02"], "Cache::get", format!("key {} holds {} which was never accepted", kk, v), "a value written under that key".into()); } }
                }
            }
            // C03/C09: the deadline is that of the last applied (not vetoed) write
            for (kk, _) in &resident {
                if let (Some(_), Some(t_)) = (last.get(kk), has_ttl.get(kk)) {
                    let ttl = c.get_ttl(kk);
                    let ok = match (t_, ttl) { (true, Some(d)) => d <= Duration::from_secs(3600) && d > Duration::from_secs(3500), (false, Some(d)) => d == Duration::MAX, _ => false };
                    if !ok { bad!("C09:store.update.veto", &["C09", "C03"], "ShardedMap::try_update", format!("key {}: get_ttl = {:?}", kk, ttl), format!("{}", if *t_ { "about 1 h (last applied write had a TTL)" } else { "Duration::MAX (last applied write had no TTL)" })); }
                }
            }
            // C08: every accepted value is resident xor appeared in exactly one callback
            let evs = events.lock().unwrap().clone();
            for v in &accepted {
                let n_cb = evs.iter().filter(|e| match e { Ev::Exit(x) => *x == Some(*v), Ev::Evict(_, x, _) => *x == Some(*v), Ev::Reject(_, x, _) => *x == Some(*v) }).count();
                let n_res = resident.values().filter(|x| *x == v).count();
                if n_cb + n_res != 1 {
                    bad!("C08:glue.new.value-kept-or-rejected-once", &["C08"], "CacheProcessor::handle_item", format!("value {}: resident {} time(s), handed to {} callback(s)", v, n_res, n_cb), "exactly one of: resident, one callback".into()); }
            }
            // C17 conservation
            let m = &c.metrics;
            if m.get_hits().unwrap() + m.get_misses().unwrap() != lookups { bad!("C17:cache.get.hit-xor-miss", &["C17"], "Cache::get", format!("hits+misses={} lookups={}", m.get_hits().unwrap() + m.get_misses().unwrap(), lookups), "equal".into()); }
            { let (h, mi) = (m.get_hits().unwrap(), m.get_misses().unwrap());
              let want = if h + mi == 0 { 0.0 } else { h as f64 / (h + mi) as f64 };
              if let Some(r) = m.ratio() { if (r - want).abs() > 1e-12 { bad!("C17:metrics.ratio", &["C17"], "MetricsInner::ratio", format!("ratio() = {} with hits {} misses {}", r, h, mi), format!("{}", want)); } } }
            if m.get_keys_added().unwrap() as i64 - m.get_keys_evicted().unwrap() as i64 != charges.len() as i64 {
                bad!("C17:add.key-ledger", &["C17"], "LFUPolicy::add", format!("keys_added-keys_evicted={} charged entries={}", m.get_keys_added().unwrap() as i64 - m.get_keys_evicted().unwrap() as i64, charges.len()), "equal".into()); }
            if m.get_cost_added().unwrap().wrapping_sub(m.get_cost_evicted().unwrap()) as i64 != used {
                bad!("C17:add.cost-ledger", &["C17"], "LFUPolicy::add", format!("cost_added-cost_evicted={} used={}", m.get_cost_added().unwrap().wrapping_sub(m.get_cost_evicted().unwrap()) as i64, used), "equal".into()); }
            // every eviction (victim of an admission, expired entry) of an admitted entry leaves one life-expectancy sample
            if !cleared {
                let n_ev = evs.iter().filter(|e| matches!(e, Ev::Evict(..))).count() as i64;
                let dbg = format!("{:?}", m.life_expectancy_seconds());
                let n_life = dbg.split("count: ").nth(1).and_then(|x| x.split(|ch: char| !ch.is_ascii_digit() && ch != '-').next()).and_then(|x| x.parse::<i64>().ok());
                if n_life != Some(n_ev) {
                    bad!("C17:glue.life-sample", &["C17"], "CacheProcessor::track_admission", format!("{:?} life-expectancy sample(s) after {} on_evict callback(s)", n_life, n_ev), "one sample per evicted entry".into()); }
            }
            // C04: nothing is lost while everything fits
            let total: i64 = last.values().map(|x| x.1).sum();
            if total > mc { c04_applies = false; }
            if c04_applies && total <= mc && m.get_sets_dropped() == Some(0) && m.get_sets_rejected() == Some(0) && m.get_keys_evicted() == Some(0) {
                for (kk, (lv, _)) in &last { if resident.get(kk) != Some(lv) { bad!("C07,C04:add.room", &["C04", "C07"], "Cache::insert", format!("key {} -> {:?}", kk, resident.get(kk)), format!("{} (everything fits: total {} <= max_cost {})", lv, total, mc)); } }
            }
        }
        let _ = c.close();
    }
    });
}


#[test]
fn colliding_keys_stay_isolated() {
    if !only("colliding_keys_stay_isolated") { return; }
    guarded("colliding_keys_stay_isolated", || {
    let mut rng = Rng::new(32);
    for _ in 0..iters(40) {
        let c: Cache<u64, u64, Colliding> = Cache::builder(200, 1000).set_key_builder(Colliding).set_ignore_internal_cost(true).finalize().unwrap();
        let mut script = vec!["Cache(key -> (key % 4, key + 1))".to_string()];
        // model: per index, the key that owns the slot and its value
        let mut owner: std::collections::HashMap<u64, (u64, u64)> = Default::default();
        let mut owner_cost: std::collections::HashMap<u64, i64> = Default::default(); // cost of the last write applied to the slot
        let mut v = 100;
        for _ in 0..(6 + rng.below(20)) {
            let k = rng.below(12);
            let idx = k % 4;
            match rng.below(4) {
                0 => { c.remove(&k); script.push(format!("remove({})", k)); if owner.get(&idx).map_or(false, |o| o.0 == k) { owner.remove(&idx); } }
                1 => { let r = c.get(&k).map(|x| *x.value()); script.push(format!("get({}) -> {:?}", k, r));
                       let want = owner.get(&idx).filter(|o| o.0 == k).map(|o| o.1);
                       if r != want { fail("colliding_keys_stay_isolated", "C18:store.get.conflict", &["C18", "C02"], "ShardedMap::get", script.join("; "), format!("{:?}", r), format!("{:?}", want)); let _ = c.close(); return; }
                       // every lookup flavour checks the conflict hash: get_ttl and get_mut of a key that only shares its index with a resident one find nothing
                       let t = c.get_ttl(&k); let m = c.get_mut(&k).map(|x| *x.value());
                       if t.is_some() != want.is_some() || m != want {
                           script.push(format!("get_ttl({}) -> {:?}; get_mut({}) -> {:?}", k, t, k, m));
                           fail("colliding_keys_stay_isolated", "C03:cache.get_ttl.only-live", &["C18", "C02", "C03"], "Cache::get_ttl", script.join("; "), format!("get_ttl {:?}, get_mut {:?}", t, m), format!("{}", if want.is_some() { "Some(..) for both: the key is resident" } else { "None for both: only a colliding key is resident" })); let _ = c.close(); return; } }
                _ => { v += 1; let cost = 1 + rng.below(4) as i64; let r = c.insert(k, v, cost); script.push(format!("insert({}, {}, cost {}) -> {}", k, v, cost, r));
                       // a colliding resident key keeps the slot; only the owner (or an empty slot) is written
                       if r && owner.get(&idx).map_or(true, |o| o.0 == k) { owner.insert(idx, (k, v)); owner_cost.insert(idx, cost); } }
            }
            c.wait().unwrap();
            for (idx, (ok, ov)) in &owner {
                let got = c.get(ok).map(|x| *x.value());
                if got != Some(*ov) {
                    fail("colliding_keys_stay_isolated", "C02,C06,C18:cache.remove.delete-always-queued", &["C18", "C02", "C06"], "Cache::try_remove", script.join("; "),
                        format!("key {} (index {}) -> {:?}", ok, idx, got), format!("Some({}): operations on a colliding key must not touch it", ov));
                    let _ = c.close(); return;
                }
            }
            // C16 under collisions: the slot is charged what its owner's last applied write said, not what a refused colliding write said
            for (idx, _) in &owner {
                if c.policy.contains(idx) && Some(&c.policy.cost(idx)) != owner_cost.get(idx) {
                    fail("colliding_keys_stay_isolated", "C16:cache.try_update.colliding-insert-does-not-recharge", &["C16"], "Cache::try_update", script.join("; "),
                        format!("index {} charged {}", idx, c.policy.cost(idx)), format!("{:?} (cost of the last write applied to the resident key)", owner_cost.get(idx)));
                    let _ = c.close(); return;
                }
            }
            // C06 for entries told apart by their index hash: an index is resident iff the policy charges for it
            for idx in 0..4u64 {
                let resident = c.store.expiration(&idx).is_some();
                let charged = c.policy.contains(&idx);
                if resident != charged {
                    fail("colliding_keys_stay_isolated", "C06:glue.delete.colliding-delete-keeps-the-charge", &["C06"], "CacheProcessor::handle_item", script.join("; "),
                        format!("index {}: resident={} charged={}", idx, resident, charged), "resident == charged (an entry that stays resident stays charged, hence evictable)".into());
                    let _ = c.close(); return;
                }
            }
        }
        let _ = c.close();
    }
    });
}

#[test]
fn builder_setters_touch_only_their_field() {
    if !only("builder_setters_touch_only_their_field") { return; }
    guarded("builder_setters_touch_only_their_field", || {
    let mut rng = Rng::new(33);
    for _ in 0..iters(300) {
        let (mut nc, mut mc, mut bi, mut bs, mut me, mut ig) = (1 + rng.below(100) as usize, 1 + rng.below(100) as i64, 64usize, 32 * 1024usize, false, false);
        let mut cd = 2u64; // default cleanup interval (seconds)
        let mut b = CacheBuilder::<u64, u64>::new(nc, mc);
        let mut script = vec![format!("CacheBuilder::new({}, {})", nc, mc)];
        for _ in 0..(1 + rng.below(8)) {
            match rng.below(12) {
                9 => { b = b.set_hasher(std::collections::hash_map::RandomState::new()); script.push("set_hasher(..)".into()); }
                10 => { b = b.set_key_builder(crate::DefaultKeyBuilder::default()); script.push("set_key_builder(..)".into()); }
                11 => { cd = 1 + rng.below(9); b = b.set_cleanup_duration(Duration::from_secs(cd)); script.push(format!("set_cleanup_duration({}s)", cd)); }
                0 => { nc = rng.below(50) as usize; b = b.set_num_counters(nc); script.push(format!("set_num_counters({})", nc)); }
                1 => { mc = rng.below(50) as i64; b = b.set_max_cost(mc); script.push(format!("set_max_cost({})", mc)); }
                2 => { bi = rng.below(50) as usize; b = b.set_buffer_items(bi); script.push(format!("set_buffer_items({})", bi)); }
                3 => { bs = rng.below(50) as usize; b = b.set_buffer_size(bs); script.push(format!("set_buffer_size({})", bs)); }
                4 => { me = !me; b = b.set_metrics(me); script.push(format!("set_metrics({})", me)); }
                5 => { ig = !ig; b = b.set_ignore_internal_cost(ig); script.push(format!("set_ignore_internal_cost({})", ig)); }
                6 => { b = b.set_update_validator(crate::DefaultUpdateValidator::default()); script.push("set_update_validator(..)".into()); }
                7 => { b = b.set_coster(crate::DefaultCoster::default()); script.push("set_coster(..)".into()); }
                _ => { b = b.set_callback(crate::DefaultCacheCallback::default()); script.push("set_callback(..)".into()); }
            }
            let i = &b.inner;
            if (i.num_counters, i.max_cost, i.buffer_items, i.insert_buffer_size, i.metrics, i.ignore_internal_cost, i.cleanup_duration) != (nc, mc, bi, bs, me, ig, Duration::from_secs(cd)) {
                fail("builder_setters_touch_only_their_field", "C20:builder.setters-touch-only-their-field", &["C20", "C01", "C02", "C04", "C05", "C07", "C08", "C09", "C13", "C15", "C16", "C17", "C18"], "CacheBuilderCore setters", script.join("; "),
                    format!("{:?}", (i.num_counters, i.max_cost, i.buffer_items, i.insert_buffer_size, i.metrics, i.ignore_internal_cost, i.cleanup_duration)), format!("{:?}", (nc, mc, bi, bs, me, ig, Duration::from_secs(cd))));
                return;
            }
        }
        let want_err = nc == 0 || mc == 0 || bs == 0;
        match b.finalize() {
            Ok(c) => {
                // what finalize() built carries the configured values
                let got = (c.policy.max_cost(), c.insert_buf_tx.capacity(), c.metrics.is_op());
                let want = (mc, Some(bs), me);
                if !want_err && got != want {
                    fail("builder_setters_touch_only_their_field", "C20:finalize.parts-as-configured", &["C20", "C01", "C02", "C04", "C05", "C07", "C08", "C09", "C13", "C15", "C16", "C17", "C18"], "CacheBuilder::finalize", script.join("; "),
                        format!("(max_cost, insert-buffer size, metrics) = {:?}", got), format!("{:?}", want));
                    let _ = c.close(); return;
                }
                let _ = c.close(); if want_err { fail("builder_setters_touch_only_their_field", "C20:finalize.rejects-zero-buffer-size", &["C20"], "CacheBuilder::finalize", script.join("; "), "Ok".into(), "Err".into()); return; } }
            Err(_) => { if !want_err { fail("builder_setters_touch_only_their_field", "C20:finalize.rejects-zero-buffer-size", &["C20"], "CacheBuilder::finalize", script.join("; "), "Err".into(), "Ok".into()); return; } }
        }
    }
    });
}


/// callback types that rely on the *provided* methods of CacheCallback: a refused value reaches on_exit (not on_evict); a
/// value swept by the policy reaches on_exit (not on_reject)
struct OnlyExitEvict(Arc<StdMutex<Vec<Ev>>>);
impl CB_ for OnlyExitEvict {
    type Value = u64;
    fn on_exit(&self, v: Option<u64>) { self.0.lock().unwrap().push(Ev::Exit(v)); }
    fn on_evict(&self, i: CItem<u64>) { self.0.lock().unwrap().push(Ev::Evict(i.index, i.val, i.cost)); }
}
struct OnlyExitReject(Arc<StdMutex<Vec<Ev>>>);
impl CB_ for OnlyExitReject {
    type Value = u64;
    fn on_exit(&self, v: Option<u64>) { self.0.lock().unwrap().push(Ev::Exit(v)); }
    fn on_reject(&self, i: CItem<u64>) { self.0.lock().unwrap().push(Ev::Reject(i.index, i.val, i.cost)); }
}

#[test]
fn provided_callback_methods_route_to_on_exit() {
    if !only("provided_callback_methods_route_to_on_exit") { return; }
    guarded("provided_callback_methods_route_to_on_exit", || {
        // refusal (cost above max_cost) with a callback that overrides on_exit + on_evict only
        let ev = Arc::new(StdMutex::new(Vec::new()));
        let c: Cache<u64, u64, TransparentKeyBuilder<u64>, crate::DefaultCoster<u64>, crate::DefaultUpdateValidator<u64>, OnlyExitEvict> = Cache::builder(200, 10)
            .set_key_builder(TransparentKeyBuilder::<u64>::default()).set_callback(OnlyExitEvict(ev.clone())).set_ignore_internal_cost(true).finalize().unwrap();
        c.insert(1, 100, 1); c.wait().unwrap();
        let r = c.insert(2, 200, 50); c.wait().unwrap();
        let log = ev.lock().unwrap().clone();
        if r && log != vec![Ev::Exit(Some(200))] {
            fail("provided_callback_methods_route_to_on_exit", "C08:callback.provided-on_reject-is-not-an-eviction", &["C08"], "CacheCallback::on_reject",
                 "Cache(max_cost=10, callback overriding on_exit+on_evict); insert(1,100,cost 1); wait(); insert(2,200,cost 50) -> true; wait()".into(), format!("callbacks seen: {:?}", log), "[Exit(Some(200))]".into());
        }
        let _ = c.close();
        // eviction with a callback that overrides on_exit + on_reject only
        let ev = Arc::new(StdMutex::new(Vec::new()));
        let c: Cache<u64, u64, TransparentKeyBuilder<u64>, crate::DefaultCoster<u64>, crate::DefaultUpdateValidator<u64>, OnlyExitReject> = Cache::builder(200, 10)
            .set_key_builder(TransparentKeyBuilder::<u64>::default()).set_callback(OnlyExitReject(ev.clone())).set_ignore_internal_cost(true).finalize().unwrap();
        c.insert(1, 100, 6); c.wait().unwrap();
        c.insert(2, 200, 6); c.wait().unwrap();   // needs room: key 1 (never looked up, as popular as the newcomer) is evicted
        let log = ev.lock().unwrap().clone();
        let resident1 = c.get(&1).is_some();
        if !resident1 && log != vec![Ev::Exit(Some(100))] {
            fail("provided_callback_methods_route_to_on_exit", "C08:callback.provided-on_evict-is-not-a-rejection", &["C08"], "CacheCallback::on_evict",
                 "Cache(max_cost=10, callback overriding on_exit+on_reject); insert(1,100,cost 6); wait(); insert(2,200,cost 6); wait()".into(), format!("callbacks seen: {:?}", log), "[Exit(Some(100))]".into());
        }
        let _ = c.close();
    });
}

/// a cloned handle is the same cache: one store, one policy, one closed flag, one set of counters
#[test]
fn cloned_handle_shares_everything() {
    if !only("cloned_handle_shares_everything") { return; }
    guarded("cloned_handle_shares_everything", || {
        let c: Cache<u64, u64, TransparentKeyBuilder<u64>> = Cache::builder(200, 1000)
            .set_key_builder(TransparentKeyBuilder::<u64>::default()).set_ignore_internal_cost(true).set_metrics(true).finalize().unwrap();
        let d = c.clone();
        let script = "Cache(max_cost=1000, metrics on); d = c.clone(); c.insert(1,10,1); c.wait(); d.get(1); d.insert(2,20,1); d.wait(); c.get(2); d.clear(); d.wait(); c.insert(3,30,1); c.wait(); c.close(); d.get(3); d.insert(4,40,1)";
        macro_rules! bad { ($clause:expr, $props:expr, $obs:expr, $req:expr) => {{ fail("cloned_handle_shares_everything", $clause, $props, "Clone for Cache", script.into(), $obs, $req); let _ = c.close(); return; }}; }
        c.insert(1, 10, 1); c.wait().unwrap();
        if d.get(&1).map(|v| *v.value()) != Some(10) { bad!("C02:cache.clone.same-parts", &["C02", "C20"], "the clone does not see key 1".into(), "Some(10)".into()); }
        d.insert(2, 20, 1); d.wait().unwrap();
        if c.get(&2).map(|v| *v.value()) != Some(20) || c.len() != 2 { bad!("C02:cache.clone.same-parts", &["C02", "C06", "C20"], format!("original sees {:?}, len {}", c.get(&2).map(|v| *v.value()), c.len()), "Some(20), len 2".into()); }
        if d.metrics.get_keys_added() != c.metrics.get_keys_added() { bad!("C17:cache.clone.same-parts", &["C17"], "different counters".into(), "one set of counters".into()); }
        d.clear().unwrap();
        while !d.clear_tx.is_empty() { std::thread::yield_now(); }
        for _ in 0..3 { d.wait().unwrap(); std::thread::sleep(Duration::from_millis(2)); }
        if c.len() != 0 { bad!("C11:cache.clone.same-parts", &["C11"], format!("len {} after clear() through the clone", c.len()), "0".into()); }
        let r = c.insert(3, 30, 1);
        if let Err(e) = c.wait() { bad!("C11:cache.clone.same-parts", &["C11", "C20"], format!("wait() after clear() through a clone failed: {}", e), "Ok: the cache stays usable".into()); }
        if !r || c.get(&3).map(|v| *v.value()) != Some(30) { bad!("C11:cache.clone.same-parts", &["C11", "C04"], format!("insert -> {}, get -> {:?}", r, c.get(&3).map(|v| *v.value())), "true, Some(30)".into()); }
        let (h, m) = (c.metrics.get_hits(), c.metrics.get_misses());
        c.close().unwrap();
        let (h0, m0) = (d.metrics.get_hits(), d.metrics.get_misses());
        let _ = (h, m);
        // the closed flag is shared: the other handle is closed too
        let got = d.get(&3).map(|v| *v.value());
        let ins = d.insert(4, 40, 1);
        if got.is_some() || ins || d.metrics.get_hits() != h0 || d.metrics.get_misses() != m0 || d.metrics.get_sets_dropped() != Some(0) {
            bad!("C17:cache.clone.same-parts", &["C17", "C02", "C20"], format!("after close() through the original: clone.get(3) -> {:?}, clone.insert(4) -> {}, hits/misses {:?}/{:?} (were {:?}/{:?}), sets_dropped {:?}", got, ins, d.metrics.get_hits(), d.metrics.get_misses(), h0, m0, d.metrics.get_sets_dropped()),
                 "None, false, counters untouched: the clone is closed as well".into());
        }
    });
}

/// C20/C03: a TTL is any Duration; the largest ones must not panic the caller, kill the processor or hang a later wait().
/// The scenario runs in a helper thread with a deadline, so that a dead worker shows as a finding, not as a hung check.
#[test]
fn huge_ttl_is_just_a_long_ttl() {
    if !only("huge_ttl_is_just_a_long_ttl") { return; }
    guarded("huge_ttl_is_just_a_long_ttl", || {
        for (name, ttl) in [("Duration::MAX", Duration::MAX), ("u64::MAX s", Duration::from_secs(u64::MAX)), ("i64::MAX s", Duration::from_secs(i64::MAX as u64)), ("2^62 s", Duration::from_secs(1 << 62))] {
            let script = format!("Cache(max_cost=1000, cleanup 50ms); insert_with_ttl(1, 10, 1, {}); wait(); insert_with_ttl(1, 11, 1, {}) [update]; wait(); insert(2, 20, 1); wait(); sleep 120ms; get(1); get(2)", name, name);
            let (tx, rx) = std::sync::mpsc::channel::<String>();
            std::thread::spawn(move || {
                let c: Cache<u64, u64, TransparentKeyBuilder<u64>> = Cache::builder(200, 1000)
                    .set_key_builder(TransparentKeyBuilder::<u64>::default()).set_ignore_internal_cost(true).set_cleanup_duration(Duration::from_millis(50)).finalize().unwrap();
                let r = std::panic::catch_unwind(std::panic::AssertUnwindSafe(|| {
                    let a = c.insert_with_ttl(1, 10, 1, ttl); let w1 = c.wait().is_ok();
                    let b = c.insert_with_ttl(1, 11, 1, ttl); let w2 = c.wait().is_ok();
                    c.insert(2, 20, 1); let w3 = c.wait().is_ok();
                    std::thread::sleep(Duration::from_millis(120));
                    let g1 = c.get(&1).map(|v| *v.value()); let g2 = c.get(&2).map(|v| *v.value());
                    (a, w1, b, w2, w3, g1, g2)
                }));
                let msg = match r {
                    Err(_) => "the caller panicked".to_string(),
                    Ok((true, true, true, true, true, Some(11), Some(20))) => "ok".to_string(),
                    Ok(x) => format!("(insert, wait, update, wait, wait, get(1), get(2)) = {:?}", x),
                };
                let _ = tx.send(msg);
                let _ = c.close();
            });
            let verdict = rx.recv_timeout(Duration::from_secs(10)).unwrap_or_else(|_| "no answer within 10 s: the processor is gone and wait() blocks for ever".to_string());
            if verdict != "ok" {
                fail("huge_ttl_is_just_a_long_ttl", "C20:time.unix.no-overflow", &["C20", "C03", "C06"], "Time::unix", script, verdict,
                     "(true, true, true, true, true, Some(11), Some(20)): the worker is alive and the entry is there".into());
                return;
            }
        }
    });
}

/// C01/C20: a cost is any i64; the largest ones must be refused as oversize (new key) or charged (update of the only entry),
/// not wrap around or kill the processor
#[test]
fn huge_cost_is_just_an_oversize_entry() {
    if !only("huge_cost_is_just_an_oversize_entry") { return; }
    guarded("huge_cost_is_just_an_oversize_entry", || {
        for (name, cost) in [("i64::MAX", i64::MAX), ("i64::MAX - 10", i64::MAX - 10)] {
            let script = format!("Cache(max_cost=1000, internal cost on); insert(1, 10, {}); wait(); insert(2, 20, 1); wait(); get(1); get(2)", name);
            let (tx, rx) = std::sync::mpsc::channel::<String>();
            std::thread::spawn(move || {
                let c: Cache<u64, u64, TransparentKeyBuilder<u64>> = Cache::builder(200, 1000)
                    .set_key_builder(TransparentKeyBuilder::<u64>::default()).finalize().unwrap();
                let r = std::panic::catch_unwind(std::panic::AssertUnwindSafe(|| {
                    c.insert(1, 10, cost); let w1 = c.wait().is_ok();
                    c.insert(2, 20, 1); let w2 = c.wait().is_ok();
                    let g1 = c.get(&1).map(|v| *v.value()); let g2 = c.get(&2).map(|v| *v.value());
                    let used = c.policy.max_cost() - c.policy.cap();
                    (w1, w2, g1, g2, used >= 0 && used <= 1000)
                }));
                let msg = match r {
                    Err(_) => "the caller panicked".to_string(),
                    Ok((true, true, None, Some(20), true)) => "ok".to_string(),
                    Ok(x) => format!("(wait, wait, get(1), get(2), 0 <= used <= max_cost) = {:?}", x),
                };
                let _ = tx.send(msg);
                let _ = c.close();
            });
            let verdict = rx.recv_timeout(Duration::from_secs(10)).unwrap_or_else(|_| "no answer within 10 s: the processor is gone and wait() blocks for ever".to_string());
            if verdict != "ok" {
                fail("huge_cost_is_just_an_oversize_entry", "C20:glue.internal-cost.no-overflow", &["C20", "C01", "C16"], "CacheProcessor::calculate_internal_cost", script, verdict,
                     "(true, true, None, Some(20), true): the oversize entry is refused, the worker is alive, the charged total stays within max_cost".into());
                return;
            }
        }
    });
}

/// Probe for finding F16 (DESIGN.md): an in-place update may legally push the charged total above max_cost (C01), but the total
/// is an i64: updating one of several residents to a cost near i64::MAX overflows `used` in SampledLFU::update
#[test]
fn huge_cost_update_keeps_the_worker_alive() {
    if !only("huge_cost_update_keeps_the_worker_alive") { return; }
    guarded("huge_cost_update_keeps_the_worker_alive", || {
        let script = "Cache(max_cost=1000, internal cost on); insert(2, 20, 1); insert(3, 30, 1); wait(); insert(3, 31, i64::MAX) [update of a resident key]; wait(); get(2)".to_string();
        let (tx, rx) = std::sync::mpsc::channel::<String>();
        std::thread::spawn(move || {
            let c: Cache<u64, u64, TransparentKeyBuilder<u64>> = Cache::builder(200, 1000)
                .set_key_builder(TransparentKeyBuilder::<u64>::default()).finalize().unwrap();
            let r = std::panic::catch_unwind(std::panic::AssertUnwindSafe(|| {
                c.insert(2, 20, 1); c.insert(3, 30, 1); let w1 = c.wait().is_ok();
                c.insert(3, 31, i64::MAX); let w2 = c.wait().is_ok();
                let g2 = c.get(&2).map(|v| *v.value());
                (w1, w2, g2)
            }));
            let msg = match r {
                Err(_) => "the caller panicked".to_string(),
                Ok((true, true, Some(20))) => "ok".to_string(),
                Ok(x) => format!("(wait, wait, get(2)) = {:?}", x),
            };
            let _ = tx.send(msg);
            let _ = c.close();
        });
        let verdict = rx.recv_timeout(Duration::from_secs(10)).unwrap_or_else(|_| "no answer within 10 s: the processor is gone and wait() blocks for ever".to_string());
        if verdict != "ok" {
            fail("huge_cost_update_keeps_the_worker_alive", "C20:pol.update.used-overflow", &["C20", "C01"], "SampledLFU::update", script, verdict,
                 "(true, true, Some(20)): the worker is alive".into());
        }
    });
}

/// C17/C11: the counters behind every conservation law — Metrics::add / get_* / clear against a plain ledger, for arbitrary
/// (type, hash, delta) including the hashes that select the last stripes
#[test]
fn metrics_ledger_laws() {
    if !only("metrics_ledger_laws") { return; }
    guarded("metrics_ledger_laws", || {
        use crate::metrics::{MetricType as MT, Metrics};
        let mut rng = Rng::new(37);
        let types = [MT::Hit, MT::Miss, MT::KeyAdd, MT::KeyUpdate, MT::KeyEvict, MT::CostAdd, MT::CostEvict, MT::DropSets, MT::RejectSets, MT::DropGets, MT::KeepGets];
        for _ in 0..iters(40) {
            let m = Metrics::new_op();
            let mut model = [0u64; 11];
            let mut script: Vec<String> = vec!["Metrics::new_op()".into()];
            for step in 0..(20 + rng.below(200)) {
                if step > 0 && rng.below(60) == 0 {
                    m.clear(); model = [0; 11]; script.push("clear()".into());
                } else {
                    let ti = rng.below(11) as usize;
                    let hash = match rng.below(4) { 0 => rng.below(64), 1 => 25 + 26 * rng.below(50), 2 => rng.next(), _ => u64::MAX - rng.below(64) };
                    let delta = 1 + rng.below(9);
                    m.add(types[ti], hash, delta); model[ti] += delta;
                    script.push(format!("add({:?}, hash {}, {})", types[ti] as u16, hash, delta));
                }
                let got = [m.get_hits(), m.get_misses(), m.get_keys_added(), m.get_keys_updated(), m.get_keys_evicted(), m.get_cost_added(), m.get_cost_evicted(), m.get_sets_dropped(), m.get_sets_rejected(), m.get_gets_dropped(), m.get_gets_kept()];
                let want: Vec<Option<u64>> = model.iter().map(|x| Some(*x)).collect();
                if got.to_vec() != want {
                    let n = script.len();
                    fail("metrics_ledger_laws", "C17:metrics.add.counts-delta-once", &["C17", "C11", "C15"], "MetricsInner::add/get/clear", format!("{} .. {}", script[0], script[n.saturating_sub(8).max(1)..].join("; ")),
                         format!("{:?}", got), format!("{:?}", want));
                    return;
                }
            }
        }
    });
}

/// C16/C01: with internal cost on, the charge of an entry is its explicit cost plus size_of::<StoreItem<V>>() — for value types
/// with padding as well (the expected overhead is computed here from the type, not read back from the store)
#[test]
fn internal_cost_is_the_size_of_a_stored_item() {
    if !only("internal_cost_is_the_size_of_a_stored_item") { return; }
    guarded("internal_cost_is_the_size_of_a_stored_item", || {
        macro_rules! one { ($v:ty, $val:expr, $name:expr) => {{
            let want = std::mem::size_of::<crate::store::StoreItem<$v>>() as i64;
            let c: Cache<u64, $v, TransparentKeyBuilder<u64>> = Cache::builder(200, 100_000)
                .set_key_builder(TransparentKeyBuilder::<u64>::default()).finalize().unwrap();
            c.insert(1, $val, 7); c.wait().unwrap();
            let got = c.policy.cost(&1);
            let isz = c.store.item_size() as i64;
            let _ = c.close();
            if got != 7 + want || isz != want {
                fail("internal_cost_is_the_size_of_a_stored_item", "C16:store.new.overhead-is-the-size-of-a-stored-item", &["C16", "C01", "C07", "C04"], "ShardedMap::with_validator_and_hasher",
                     format!("Cache<u64, {}>(max_cost=100000, internal cost on); insert(1, _, cost 7); wait()", $name), format!("charged {}, item_size() = {}", got, isz), format!("7 + {} (size_of::<StoreItem<{}>>())", want, $name));
                return;
            }
        }}; }
        one!(u64, 1u64, "u64");
        one!(u32, 1u32, "u32");
        one!(u8, 1u8, "u8");
        one!([u8; 3], [0u8; 3], "[u8; 3]");
        one!([u64; 32], [0u64; 32], "[u64; 32]");
    });
}

/// C20 (bounded guard for code no contract reaches: the processor's spawn loop, its ticker, the channels): every accepted
/// configuration at the edges of its range yields a cache on which a small workload completes.  Runs in a helper thread with a
/// deadline, so that a dead worker shows as a finding, not as a hung check.
#[test]
fn extreme_configurations_work() {
    if !only("extreme_configurations_work") { return; }
    guarded("extreme_configurations_work", || {
        let configs: Vec<(&str, usize, i64, usize, usize, Duration, bool, bool)> = vec![
            ("cleanup interval Duration::MAX", 100, 100, 64, 1024, Duration::MAX, true, true),
            ("cleanup interval 1 ns", 100, 100, 64, 1024, Duration::from_nanos(1), false, false),
            ("buffer_items 0, insert buffer 1", 100, 100, 0, 1, Duration::from_secs(1), true, false),
            ("num_counters 1, max_cost 1", 1, 1, 1, 4, Duration::from_millis(5), false, true),
            ("max_cost i64::MAX, num_counters 3", 3, i64::MAX, 7, 16, Duration::from_secs(3600), true, true),
            ("max_cost -1", 100, -1, 64, 1024, Duration::from_millis(5), true, true),
            ("max_cost -100, internal cost counted", 70, -100, 3, 8, Duration::from_millis(5), false, false),
            ("max_cost i64::MIN", 5, i64::MIN, 64, 32, Duration::from_secs(1), true, false),
        ];
        for (name, nc, mc, bi, bs, cd, metrics, ignore) in configs {
            let script = format!("Cache::builder({}, {}).set_buffer_items({}).set_buffer_size({}).set_cleanup_duration({:?}).set_metrics({}).set_ignore_internal_cost({}) [{}]; insert x3; wait; get; update; insert_with_ttl; remove; wait; clear; insert; wait; close", nc, mc, bi, bs, cd, metrics, ignore, name);
            let (tx, rx) = std::sync::mpsc::channel::<String>();
            std::thread::spawn(move || {
                let r = std::panic::catch_unwind(std::panic::AssertUnwindSafe(|| {
                    /*WORKLOAD-BEGIN*/
                    let c: Cache<u64, u64, TransparentKeyBuilder<u64>> = match Cache::builder(nc, mc)
                        .set_key_builder(TransparentKeyBuilder::<u64>::default()).set_buffer_items(bi).set_buffer_size(bs)
                        .set_cleanup_duration(cd).set_metrics(metrics).set_ignore_internal_cost(ignore).finalize() { Ok(c) => c, Err(e) => return format!("finalize refused an accepted configuration: {}", e) };
                    // wait() needs a free slot of the insert buffer itself: retry for a while
                    macro_rules! settle { ($what:expr) => {{ let mut ok = false; for _ in 0..200 { if c.wait().is_ok() { ok = true; break; } std::thread::sleep(Duration::from_millis(1)); } if !ok { return format!("wait() keeps failing after {}", $what); } }}; }
                    for k in 0..3u64 { c.insert(k, k, 1); settle!("an insert"); }
                    let _ = c.get(&0); let _ = c.get(&7);
                    // buffer_items 0 = "do not batch lookups": each one is handed to the policy at once (kept or dropped, never held back)
                    if bi == 0 && metrics {
                        let seen = c.metrics.get_gets_kept().unwrap_or(0) + c.metrics.get_gets_dropped().unwrap_or(0);
                        if seen != 2 { return format!("buffer_items 0: {} of 2 lookups were handed to the policy (gets_kept + gets_dropped)", seen); }
                    }
                    c.insert(0, 100, 1); settle!("an update");
                    c.insert_with_ttl(5, 5, 1, Duration::from_millis(1)); settle!("a TTL insert");
                    std::thread::sleep(Duration::from_millis(20));
                    c.remove(&1); settle!("a remove");
                    if c.clear().is_err() { return "clear() failed".into(); }
                    settle!("clear()");
                    c.insert(9, 9, 1); settle!("the last insert");
                    if c.close().is_err() { return "close() failed".into(); }
                    "ok".to_string()
                    /*WORKLOAD-END*/
                }));
                let _ = tx.send(match r { Ok(s) => s, Err(_) => "the caller panicked".to_string() });
            });
            let verdict = rx.recv_timeout(Duration::from_secs(20)).unwrap_or_else(|_| "no answer within 20 s: a worker is gone and a call blocks for ever".to_string());
            if verdict != "ok" {
                fail("extreme_configurations_work", "C20:config.edges-yield-a-working-cache", &["C20", "C05"], "CacheProcessor::spawn", script, verdict, "every call completes".into());
                return;
            }
        }
    });
}

/// Probe for a schedule-dependent defect (DESIGN.md F10): `clear()` only *signals* the processor; if the processor has not yet
/// consumed the signal when the caller's next insert is queued, the cleaner discards that insert (hands it to on_evict).
#[test]
fn insert_after_clear_is_kept() {
    if !only("insert_after_clear_is_kept") { return; }
    guarded("insert_after_clear_is_kept", || {
        let c: Cache<u64, u64, TransparentKeyBuilder<u64>> = Cache::builder(200, 1000)
            .set_key_builder(TransparentKeyBuilder::<u64>::default()).set_ignore_internal_cost(true).finalize().unwrap();
        for round in 0..iters(400) {
            c.insert(1, round, 1);
            c.wait().unwrap();
            c.clear().unwrap();
            // clear() has returned: from here on the cache must behave like a fresh one
            let accepted = c.insert(2, round, 1);
            c.wait().unwrap();
            let got = c.get(&2).map(|v| *v.value());
            if accepted && got != Some(round) {
                fail("insert_after_clear_is_kept", "C11:cache.clear.pending-signal-discards-later-insert", &["C11", "C04"], "Cache::clear",
                    format!("round {}: insert(1); wait(); clear() -> Ok; insert(2, {}, cost 1) -> true; wait(); get(2)", round, round), format!("{:?}", got),
                    format!("Some({}): nothing else was inserted and max_cost is 1000", round));
                let _ = c.close();
                return;
            }
            c.remove(&2);
            c.wait().unwrap();
        }
        let _ = c.close();
    });
}

/// [C09] insert_if_present never creates an entry - also not out of one whose TTL has elapsed but which the sweep has not reclaimed
/// yet: to every lookup that key is absent, so the conditional write must answer false and leave it absent.
#[test]
fn insert_if_present_on_an_expired_key_creates_nothing() {
    if !only("insert_if_present_on_an_expired_key_creates_nothing") { return; }
    guarded("insert_if_present_on_an_expired_key_creates_nothing", || {
        let c: Cache<u64, u64, TransparentKeyBuilder<u64>> = Cache::builder(200, 1000)
            .set_key_builder(TransparentKeyBuilder::<u64>::default()).set_ignore_internal_cost(true).set_cleanup_duration(Duration::from_secs(3600)).finalize().unwrap();
        c.insert_with_ttl(1, 10, 1, Duration::from_millis(5)); c.wait().unwrap();
        std::thread::sleep(Duration::from_millis(40));
        let before = c.get(&1).map(|v| *v.value());
        let r = c.insert_if_present(1, 11, 1); c.wait().unwrap();
        let after = c.get(&1).map(|v| *v.value());
        if before.is_some() || r || after.is_some() {
            fail("insert_if_present_on_an_expired_key_creates_nothing", "C09:cache.try_update.if-present-creates-nothing", &["C09", "C03"], "Cache::try_update",
                "Cache(cleanup interval 1 h); insert_with_ttl(1, 10, cost 1, 5 ms); wait(); sleep 40 ms; get(1); insert_if_present(1, 11, cost 1); wait(); get(1)".into(),
                format!("get(1) = {:?}; insert_if_present -> {}; get(1) = {:?}", before, r, after), "None; false; None (the TTL has elapsed: the key is absent)".into());
        }
        let _ = c.close();
    });
}
