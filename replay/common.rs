// shared helpers for the executable oracles (lane R).  Deterministic: everything derives from VERIF_SEED.
#[allow(dead_code)]
pub(crate) struct Rng(u64);
#[allow(dead_code)]
impl Rng {
    pub(crate) fn new(stream: u64) -> Self {
        let seed: u64 = std::env::var("VERIF_SEED").ok().and_then(|s| s.parse().ok()).unwrap_or(0);
        Rng(seed.wrapping_mul(0x9E37_79B9_7F4A_7C15).wrapping_add(stream).wrapping_add(0x2545_F491_4F6C_DD1D) | 1)
    }
    pub(crate) fn next(&mut self) -> u64 {
        let mut x = self.0;
        x ^= x << 13;
        x ^= x >> 7;
        x ^= x << 17;
        self.0 = x;
        x.wrapping_mul(0x2545_F491_4F6C_DD1D)
    }
    pub(crate) fn below(&mut self, n: u64) -> u64 { if n == 0 { 0 } else { self.next() % n } }
    /// boundary-biased u64
    pub(crate) fn edgy(&mut self) -> u64 {
        match self.below(8) {
            0 => 0,
            1 => u64::MAX,
            2 => 1u64 << self.below(64),
            3 => (1u64 << self.below(64)).wrapping_sub(1),
            4 => self.below(1024),
            _ => self.next(),
        }
    }
}
#[allow(dead_code)]
pub(crate) fn iters(default: u64) -> u64 {
    std::env::var("VERIF_ITERS").ok().and_then(|s| s.parse().ok()).unwrap_or(default)
}
#[allow(dead_code)]
pub(crate) fn only(test: &str) -> bool {
    match std::env::var("VERIF_ONLY") { Ok(t) if !t.is_empty() => t.split(',').any(|x| x == test), _ => true }
}
/// report one failing input; never panics (the driver parses the line)
#[allow(dead_code)]
pub(crate) fn fail(test: &str, clause: &str, props: &[&str], function: &str, input: String, observed: String, required: String) {
    let esc = |s: &str| s.replace('\\', "\\\\").replace('"', "\\\"").replace('\n', " ");
    let props: Vec<String> = props.iter().map(|p| format!("\"{}\"", p)).collect();
    println!("REPLAY-FAIL {{\"test\":\"{}\",\"clause\":\"{}\",\"props\":[{}],\"function\":\"{}\",\"input\":\"{}\",\"observed\":\"{}\",\"required\":\"{}\"}}",
        esc(test), esc(clause), props.join(","), esc(function), esc(&input), esc(&observed), esc(&required));
}

/// run an oracle body; a panic inside the code under test is itself a finding (C20: no operation panics in the caller)
#[allow(dead_code)]
pub(crate) fn guarded(test: &str, f: impl FnOnce() + std::panic::UnwindSafe) {
    let prev = std::panic::take_hook();
    let msg = std::sync::Arc::new(std::sync::Mutex::new(String::new()));
    let m2 = msg.clone();
    std::panic::set_hook(Box::new(move |info| { *m2.lock().unwrap() = format!("{}", info); }));
    let r = std::panic::catch_unwind(f);
    std::panic::set_hook(prev);
    if r.is_err() {
        let m = msg.lock().unwrap().clone();
        fail(test, "C20:panic-freedom", &["C20", "C13", "C14", "C11"], "(see panic location)", format!("oracle `{}` with VERIF_SEED", test), format!("panic: {}", m), "no operation panics".into());
    }
}
