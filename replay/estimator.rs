// Executable oracles of the u1_estimator contracts, run against the real crate (child module of `policy`).
// Used only to find a concrete failing input after a proof obligation failed; never counted as proof.
use super::*;
use crate::bbloom::Bloom;
use crate::sketch::{CountMinRow, CountMinSketch};
include!("/verif/replay/common.rs");

fn quiet<R>(f: impl FnOnce() -> R + std::panic::UnwindSafe) -> Result<R, String> {
    let prev = std::panic::take_hook();
    std::panic::set_hook(Box::new(|_| {}));
    let r = std::panic::catch_unwind(f);
    std::panic::set_hook(prev);
    r.map_err(|e| e.downcast_ref::<String>().cloned().or_else(|| e.downcast_ref::<&str>().map(|s| s.to_string())).unwrap_or_else(|| "panic".into()))
}

#[test]
fn sketch_new_every_width_works() {
    if !only("sketch_new_every_width_works") { return; }
    guarded("sketch_new_every_width_works", || {
    // [C20:sk.new.wf] every accepted width yields a sketch on which increment/estimate are in bounds
    let mut rng = Rng::new(1);
    let mut widths: Vec<u64> = (1..=70).collect();
    for _ in 0..iters(200) { widths.push(1 + rng.below(5000)); }
    for w in widths {
        let h = rng.edgy();
        let r = quiet(move || {
            let mut s = CountMinSketch::new(w).unwrap();
            s.increment(h);
            s.estimate(h)
        });
        match r {
            Err(p) => { fail("sketch_new_every_width_works", "C20:sk.new.wf", &["C20", "C13"], "CountMinSketch::new",
                format!("CountMinSketch::new({}) then increment({}) / estimate({})", w, h, h), format!("panic: {}", p),
                "no panic; estimate >= 1".into()); return; }
            Ok(e) if e < 1 => { fail("sketch_new_every_width_works", "C13:sk.inc.recorded", &["C13"], "CountMinSketch::increment",
                format!("new({}); increment({}); estimate({})", w, h, h), format!("{}", e), ">= 1".into()); return; }
            _ => {}
        }
    }
    });
}

#[test]
fn row_counters_saturate_and_do_not_spill() {
    if !only("row_counters_saturate_and_do_not_spill") { return; }
    guarded("row_counters_saturate_and_do_not_spill", || {
    let mut rng = Rng::new(2);
    for _ in 0..iters(2000) {
        let width = 1 + rng.below(8);
        let mut row = CountMinRow::new(width);
        let n = 2 * width;
        let mut model = vec![0u8; n as usize];
        for _ in 0..(1 + rng.below(60)) {
            let op = rng.below(10);
            if op == 0 {
                row.reset();
                for m in model.iter_mut() { *m /= 2; }
            } else if op == 1 && rng.below(4) == 0 {
                row.clear();
                for m in model.iter_mut() { *m = 0; }
            } else {
                let i = rng.below(n);
                row.increment(i);
                model[i as usize] = (model[i as usize] + 1).min(15);
            }
            for j in 0..n {
                if row.get(j) != model[j as usize] {
                    fail("row_counters_saturate_and_do_not_spill", "C13:row.inc.no-spill", &["C13"], "CountMinRow::increment",
                        format!("width {} after op {}", width, op), format!("counter {} = {}", j, row.get(j)), format!("{}", model[j as usize]));
                    return;
                }
            }
        }
    }
    });
}

#[test]
fn tinylfu_never_undercounts_between_resets() {
    if !only("tinylfu_never_undercounts_between_resets") { return; }
    guarded("tinylfu_never_undercounts_between_resets", || {
    let mut rng = Rng::new(3);
    for _ in 0..iters(300) {
        let n = 1 + rng.below(70) as usize;
        let mut t = match quiet(move || TinyLFU::new(n)) { Ok(Ok(t)) => t, _ => {
            fail("tinylfu_never_undercounts_between_resets", "C20:tlfu.new.wf", &["C20", "C13"], "TinyLFU::new", format!("TinyLFU::new({})", n), "panic or Err".into(), "Ok".into()); return; } };
        let keys: Vec<u64> = (0..4).map(|_| rng.edgy()).collect();
        {
            let (tt, kk) = (std::panic::AssertUnwindSafe(&t), keys[0]);
            if let Err(p) = quiet(move || { tt.estimate(kk) }) {
                fail("tinylfu_never_undercounts_between_resets", "C20:sk.new.wf", &["C20", "C13"], "TinyLFU::estimate", format!("TinyLFU::new({}); estimate({})", n, kk), format!("panic: {}", p), "no panic".into());
                return;
            }
        }
        for k in &keys {
            if t.estimate(*k) != 0 {
                fail("tinylfu_never_undercounts_between_resets", "C13:tlfu.new.zero", &["C13"], "TinyLFU::new", format!("new({}); estimate({})", n, k), format!("{}", t.estimate(*k)), "0".into());
                return;
            }
        }
        let mut rec = std::collections::HashMap::<u64, i64>::new();
        let mut w = 0usize;
        let mut hist = Vec::new();
        for _ in 0..(3 * n + 5) {
            let k = keys[rng.below(keys.len() as u64) as usize];
            hist.push(k);
            let tt = std::panic::AssertUnwindSafe(&mut t);
            if let Err(p) = quiet(move || { let mut tt = tt; tt.increment(k) }) {
                fail("tinylfu_never_undercounts_between_resets", "C20:sk.new.wf", &["C20", "C13"], "TinyLFU::increment", format!("TinyLFU::new({}); increments {:?}", n, hist), format!("panic: {}", p), "no panic".into());
                return;
            }
            w += 1;
            *rec.entry(k).or_insert(0) += 1;
            if w >= n {
                // aging must have happened: window restarts, doorkeeper emptied
                if t.w != 0 || t.contains(k) {
                    fail("tinylfu_never_undercounts_between_resets", "C13:tlfu.try_reset.aged", &["C13"], "TinyLFU::try_reset", format!("new({}); increments {:?}", n, hist), format!("w={} doorkeeper.contains={}", t.w, t.contains(k)), "w=0, doorkeeper empty".into());
                    return;
                }
                w = 0;
                rec.clear();
            }
            for (kk, c) in rec.iter() {
                let e = t.estimate(*kk);
                if e < (*c).min(16) {
                    fail("tinylfu_never_undercounts_between_resets", "C13:tlfu.inc.recorded", &["C13"], "TinyLFU::increment", format!("new({}); increments {:?}; estimate({})", n, hist, kk), format!("{}", e), format!(">= {}", (*c).min(16)));
                    return;
                }
            }
        }
        t.clear();
        for k in &keys {
            if t.estimate(*k) != 0 {
                fail("tinylfu_never_undercounts_between_resets", "C13,C11:tlfu.clear", &["C13", "C11"], "TinyLFU::clear", format!("clear(); estimate({})", k), format!("{}", t.estimate(*k)), "0".into());
                return;
            }
        }
    }
    });
}

#[test]
fn bloom_bits_are_independent_cells() {
    if !only("bloom_bits_are_independent_cells") { return; }
    guarded("bloom_bits_are_independent_cells", || {
    // [C14] set(i) makes exactly bit i visible; add(h) => contains(h); false-positive rate near the target
    let mut rng = Rng::new(4);
    for cap in [10usize, 100, 1000] {
        let mut b = Bloom::new(cap, 0.01);
        let size = (b.total_size() - 40) * 8; // bits in the array
        for _ in 0..iters(200) {
            let i = rng.below(size as u64) as usize;
            let j = rng.below(size as u64) as usize;
            b.reset();
            b.set(i);
            if !b.is_set(i) || (j != i && b.is_set(j)) {
                fail("bloom_bits_are_independent_cells", "C14:bloom_set_contract", &["C14", "C13", "C20"], "Bloom::set",
                    format!("Bloom::new({}, 0.01); reset(); set({}); is_set({}) / is_set({})", cap, i, i, j), format!("is_set({})={} is_set({})={}", i, b.is_set(i), j, b.is_set(j)), "true / false".into());
                return;
            }
        }
        b.reset();
        let added: Vec<u64> = (0..cap).map(|_| rng.next()).collect();
        for h in &added { b.add(*h); }
        for h in &added {
            if !b.contains(*h) {
                fail("bloom_bits_are_independent_cells", "C14:bloom.add.present", &["C14", "C13"], "Bloom::add", format!("cap {} add({})", cap, h), "contains=false".into(), "true".into());
                return;
            }
        }
        // every insertion path and the query path walk the same probe sequence, also for hashes that differ only in their high
        // or only in their low bits
        for (n, via_coa) in [(0u64, false), (1, true)] {
            b.reset();
            for k in 0..40u64 {
                let h = match k % 5 { 0 => k << 32, 1 => (k + 1) << 55, 2 => k, 3 => rng.edgy(), _ => rng.next() };
                let desc = if via_coa { "contains_or_add" } else { "add" };
                if via_coa { b.contains_or_add(h); } else { b.add(h); }
                if !b.contains(h) || b.contains_or_add(h) {
                    fail("bloom_bits_are_independent_cells", "C14:bloom.add.present", &["C14", "C13"], "Bloom::contains_or_add", format!("Bloom::new({}, 0.01); {}({:#x}); contains({:#x}) / contains_or_add({:#x})", cap, desc, h, h, h),
                        "reported absent (or added twice)".into(), "present".into());
                    return;
                }
            }
            let _ = n;
        }
        b.reset();
        for h in &added { b.add(*h); }
        if cap >= 100 {
            let probes = 20000u64;
            let mut fp = 0u64;
            for _ in 0..probes { if b.contains(rng.next()) { fp += 1; } }
            if fp * 100 > probes * 5 {
                fail("bloom_bits_are_independent_cells", "C14:bloom_set_contract", &["C14"], "Bloom::set", format!("Bloom::new({}, 0.01) after {} distinct adds, {} random probes", cap, cap, probes),
                    format!("{} false positives ({:.1}%)", fp, fp as f64 * 100.0 / probes as f64), "<= 5% (target 1%)".into());
                return;
            }
        }
        b.clear();
        if added.iter().any(|h| b.contains(*h)) {
            fail("bloom_bits_are_independent_cells", "C14:bloom.clear.empty", &["C14", "C11"], "Bloom::clear", format!("cap {}", cap), "contains after clear".into(), "false".into());
            return;
        }
    }
    });
}

/// [C15, C13] a batch of lookups handed to the estimator counts exactly like the same lookups recorded one by one - also when the
/// sample window closes (the sketch is aged) in the middle of the batch.  (`TinyLFU::increments` contract, executable.)
#[test]
fn batch_increments_equal_single_increments() {
    if !only("batch_increments_equal_single_increments") { return; }
    guarded("batch_increments_equal_single_increments", || {
    let mut rng = Rng::new(7);
    for _ in 0..iters(300) {
        let n = 1 + rng.below(40) as usize;
        let (mut a, mut b) = match (TinyLFU::new(n), TinyLFU::new(n)) { (Ok(a), Ok(b)) => (a, b), _ => return };
        let keys: Vec<u64> = (0..5).map(|_| rng.edgy()).collect();
        let mut hist: Vec<Vec<u64>> = Vec::new();
        for _ in 0..4 {
            let len = rng.below(12) as usize;
            let batch: Vec<u64> = (0..len).map(|_| keys[rng.below(5) as usize]).collect();
            hist.push(batch.clone());
            let _ = a.increments(batch.clone());
            for k in &batch { let _ = b.increment(*k); }
            for k in &keys {
                if a.estimate(*k) != b.estimate(*k) || a.w != b.w {
                    fail("batch_increments_equal_single_increments", "C15:tlfu.increments.every-key-counted", &["C15", "C13"], "TinyLFU::increments",
                        format!("TinyLFU::new({}); increments for each batch of {:?}; estimate({})", n, hist, k), format!("estimate {} (window position {})", a.estimate(*k), a.w),
                        format!("{} (window position {}): what the same keys give when recorded one by one with increment()", b.estimate(*k), b.w));
                    return;
                }
            }
        }
    }
    });
}
