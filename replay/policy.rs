// Executable oracles of the u4_policy contracts, run against the real LFUPolicy (child module of `policy`).
use super::*;
include!("/verif/replay/common.rs");

fn snapshot(p: &LFUPolicy) -> (i64, std::collections::BTreeMap<u64, i64>, i64) {
    let inner = p.inner.lock();
    (inner.costs.used, inner.costs.key_costs.iter().map(|(k, v)| (*k, *v)).collect(), inner.costs.get_max_cost())
}

#[test]
fn policy_add_respects_contract() {
    if !only("policy_add_respects_contract") { return; }
    guarded("policy_add_respects_contract", || {
    let mut rng = Rng::new(21);
    for round in 0..iters(400) {
        let max_cost = 4 + rng.below(16) as i64;
        let p = LFUPolicy::new(64, max_cost).unwrap();
        let mut script = vec![format!("LFUPolicy::new(64, {})", max_cost)];
        let nkeys = 6 + rng.below(20);
        // popularity: some rounds all-zero (ties), some with recorded accesses
        if round % 2 == 1 {
            let mut inner = p.inner.lock();
            for _ in 0..rng.below(40) { let k = rng.below(nkeys); inner.admit.increment(k); }
        }
        for _ in 0..(10 + rng.below(40)) {
            let key = rng.below(nkeys);
            let cost = match rng.below(6) { 0 => max_cost + rng.below(3) as i64, 1 => 1 + rng.below(6) as i64, _ => 1 + rng.below(2) as i64 };
            let (used0, map0, mc0) = snapshot(&p);
            let est = |k: u64| p.inner.lock().admit.estimate(k);
            let est_key = est(key);
            let (victims, added) = p.add(key, cost);
            script.push(format!("add({}, {}) -> ({:?}, {})", key, cost, victims.as_ref().map(|v| v.iter().map(|x| (x.key, x.cost)).collect::<Vec<_>>()), added));
            let (used1, map1, _) = snapshot(&p);
            let sum1: i64 = map1.values().sum();
            let ctx = |s: &Vec<String>| { let n = s.len(); s[n.saturating_sub(12)..].join("; ") };
            if used1 != sum1 {
                fail("policy_add_respects_contract", "C01:add.wf", &["C01"], "LFUPolicy::add", ctx(&script), format!("used={} sum of charges={}", used1, sum1), "used == sum of per-entry charges".into()); return;
            }
            if cost > mc0 && (added || map1 != map0) {
                fail("policy_add_respects_contract", "C01:add.oversize", &["C01"], "LFUPolicy::add", ctx(&script), format!("added={} charges changed={}", added, map1 != map0), "rejected, state untouched".into()); return;
            }
            if added && used1 > mc0 {
                fail("policy_add_respects_contract", "C01:add.admitted", &["C01", "C07"], "LFUPolicy::add", ctx(&script), format!("used={} max_cost={}", used1, mc0), "used <= max_cost after an admission".into()); return;
            }
            if added && map1.get(&key) != Some(&cost) {
                fail("policy_add_respects_contract", "C01,C16:add.charge", &["C01", "C16"], "LFUPolicy::add", ctx(&script), format!("charge={:?}", map1.get(&key)), format!("{}", cost)); return;
            }
            let fresh = !map0.contains_key(&key);
            if cost <= mc0 && fresh && used0 + cost <= mc0 && !(added && victims.is_none()) {
                fail("policy_add_respects_contract", "C07:add.room", &["C07", "C04"], "LFUPolicy::add", ctx(&script), format!("added={} victims={}", added, victims.is_some()), "room => admitted without eviction".into()); return;
            }
            for (k, c) in &map1 { if *k != key && map0.get(k) != Some(c) {
                fail("policy_add_respects_contract", "C01,C07:add.frame", &["C01", "C07"], "LFUPolicy::add", ctx(&script), format!("charge of {} became {}", k, c), "other charges unchanged".into()); return; } }
            if let Some(vs) = &victims {
                for v in vs {
                    if est(v.key) > est_key {
                        fail("policy_add_respects_contract", "C07:add.victim-popularity", &["C07"], "LFUPolicy::add", ctx(&script), format!("victim {} est {} > newcomer est {}", v.key, est(v.key), est_key), "victim no more popular than newcomer".into()); return; }
                    if map0.get(&v.key) != Some(&v.cost) || map1.contains_key(&v.key) {
                        fail("policy_add_respects_contract", "C07,C16:add.victim-resident", &["C07", "C16"], "LFUPolicy::add", ctx(&script), format!("victim ({}, {}) old charge {:?} still resident {}", v.key, v.cost, map0.get(&v.key), map1.contains_key(&v.key)), "victim was resident with that charge and is gone".into()); return; }
                }
                if let Some(last) = vs.last() {
                    let before_admit = used1 - if added { cost } else { 0 };
                    if !(before_admit + last.cost + cost > mc0) {
                        fail("policy_add_respects_contract", "C07:add.evict-only-while-lacking", &["C07"], "LFUPolicy::add", ctx(&script), format!("used before last eviction {} + cost {} <= max_cost {}", before_admit + last.cost, cost, mc0), "evict only while room is lacking".into()); return; }
                }
            }
            for k in map0.keys() { if !map1.contains_key(k) && !victims.as_ref().map_or(false, |v| v.iter().any(|x| x.key == *k)) {
                fail("policy_add_respects_contract", "C07:add.removed-are-victims", &["C07", "C06"], "LFUPolicy::add", ctx(&script), format!("key {} vanished without being reported", k), "every removed key is a reported victim".into()); return; } }
            if !added && cost <= mc0 && fresh && !map0.keys().any(|k| est(*k) > est_key) {
                fail("policy_add_respects_contract", "C07:add.reject-only-if-less-popular", &["C07"], "LFUPolicy::add", ctx(&script), "rejected although no resident is more popular".into(), "reject only if strictly less popular than the least popular candidate".into()); return;
            }
            // occasionally update / remove / change max_cost / clear
            match rng.below(10) {
                0 => { let k = rng.below(nkeys); p.remove(&k); script.push(format!("remove({})", k)); }
                1 => { let k = rng.below(nkeys); let c = 1 + rng.below(4) as i64; p.update(&k, c); script.push(format!("update({}, {})", k, c)); }
                2 => {
                    let mc = match rng.below(4) { 0 => 0, 1 => -(rng.below(5) as i64), _ => 1 + rng.below(30) as i64 };
                    p.update_max_cost(mc);
                    script.push(format!("update_max_cost({})", mc));
                    if p.max_cost() != mc {
                        fail("policy_add_respects_contract", "C01:umc.set", &["C01"], "SampledLFU::update_max_cost", ctx(&script), format!("max_cost() = {}", p.max_cost()), format!("{}", mc)); return;
                    }
                }
                3 => {
                    { let mut inner = p.inner.lock(); for _ in 0..5 { let k = rng.below(nkeys); inner.admit.increment(k); inner.admit.increment(k); inner.admit.increment(k); } }
                    p.clear();
                    script.push("increment x15; clear()".to_string());
                    let (u, m, _) = snapshot(&p);
                    if u != 0 || !m.is_empty() {
                        fail("policy_add_respects_contract", "C11:pol.clear.empty", &["C11", "C01"], "LFUPolicy::clear", ctx(&script), format!("used={} entries={}", u, m.len()), "0 / 0".into()); return;
                    }
                    for k in 0..nkeys { let e = p.inner.lock().admit.estimate(k); if e != 0 {
                        fail("policy_add_respects_contract", "C11:pol.clear.estimator", &["C11", "C13"], "LFUPolicy::clear", ctx(&script), format!("estimate({}) = {} after clear()", k, e), "0".into()); return; } }
                }
                _ => {}
            }
            let (u2, m2, _) = snapshot(&p);
            if u2 != m2.values().sum::<i64>() {
                fail("policy_add_respects_contract", "C01:pol.rm.wf", &["C01"], "LFUPolicy::remove/update", ctx(&script), format!("used={} sum={}", u2, m2.values().sum::<i64>()), "used == sum".into()); return;
            }
        }
        let _ = p.close();
    }
    });
}

/// [C13, C20] the policy hands `num_counters` to its estimator unchanged: the sample window of a policy built for n counters is n
/// (every n, odd ones and 1 included), and recording n accesses through the policy's estimator ages it exactly once.
#[test]
fn policy_window_is_num_counters() {
    if !only("policy_window_is_num_counters") { return; }
    guarded("policy_window_is_num_counters", || {
    for n in (1usize..70).chain([100, 127, 128, 1000, 1023]) {
        let p = match LFUPolicy::new(n, 10) { Ok(p) => p, Err(e) => {
            fail("policy_window_is_num_counters", "C20:inner.with_hasher.rejects-only-zero-counters", &["C20", "C13"], "PolicyInner::with_hasher", format!("LFUPolicy::new({}, 10)", n), format!("Err({})", e), "Ok".into()); return; } };
        let mut inner = p.inner.lock();
        if inner.admit.samples != n {
            fail("policy_window_is_num_counters", "C13:inner.with_hasher.window-is-num-counters", &["C13", "C07"], "PolicyInner::with_hasher", format!("LFUPolicy::new({}, 10)", n),
                format!("sample window {}", inner.admit.samples), format!("{}", n));
            return;
        }
        for _ in 0..n { inner.admit.increment(42); }
        if inner.admit.w != 0 || inner.admit.contains(42) {
            fail("policy_window_is_num_counters", "C13:inner.with_hasher.window-is-num-counters", &["C13", "C07"], "PolicyInner::with_hasher", format!("LFUPolicy::new({}, 10); {} recorded accesses of key 42", n, n),
                format!("window position {} doorkeeper.contains(42) = {}", inner.admit.w, inner.admit.contains(42)), "aged: window restarted, doorkeeper emptied".into());
            return;
        }
    }
    if LFUPolicy::new(0, 10).is_ok() {
        fail("policy_window_is_num_counters", "C20:inner.with_hasher.rejects-only-zero-counters", &["C20", "C13"], "PolicyInner::with_hasher", "LFUPolicy::new(0, 10)".into(), "Ok".into(), "Err(InvalidNumCounters)".into());
    }
    });
}
