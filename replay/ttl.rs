// Executable oracles of the u5_ttl contracts, run against the real ExpirationMap (child module of `ttl`).
use super::*;
include!("/verif/replay/common.rs");

fn t(created_secs: u64, created_nanos: u32, ttl_ms: u64) -> Time {
    Time { d: Duration::from_millis(ttl_ms), created_at: UNIX_EPOCH + Duration::new(created_secs, created_nanos) }
}
/// the oracle's own statement of the bucket numbering (the contract's `bucket_of`): the second after the deadline second,
/// saturating at i64::MAX — deliberately NOT the crate's storage_bucket, so that a change of that function is observed
fn bucket_of(t: Time) -> i64 {
    let s = t.unix();
    if s >= i64::MAX as u64 { i64::MAX } else { (s + 1) as i64 }
}
fn listed(em: &ExpirationMap, b: i64, k: u64) -> bool {
    em.buckets.read().get(&b).map_or(false, |bk| bk.map.contains_key(&k))
}
fn listings(em: &ExpirationMap) -> Vec<(i64, u64, u64)> {
    let mut v: Vec<(i64, u64, u64)> = em.buckets.read().iter().flat_map(|(b, bk)| bk.map.iter().map(move |(k, c)| (*b, *k, *c))).collect();
    v.sort();
    v
}

#[test]
fn expiration_index_keeps_other_keys() {
    if !only("expiration_index_keeps_other_keys") { return; }
    guarded("expiration_index_keeps_other_keys", || {
    let mut rng = Rng::new(11);
    for _ in 0..iters(3000) {
        let em = ExpirationMap::new();
        let base = 1_000_000 + rng.below(1000);
        let nkeys = 2 + rng.below(4);
        // model: key -> current Time
        let mut cur: std::collections::HashMap<u64, Time> = Default::default();
        let mut script = Vec::new();
        for step in 0..(2 + rng.below(8)) {
            let k = rng.below(nkeys);
            let ttl = match rng.below(4) { 0 => 0, 1 => 300 + rng.below(600), _ => 1000 * (1 + rng.below(4)) };
            let now = t(base + step / 3, (rng.below(1000) * 1_000_000) as u32, ttl);
            let before = listings(&em);
            let op;
            match cur.get(&k).copied() {
                None => { em.try_insert(k, k + 100, now).unwrap(); op = format!("try_insert(k={}, ttl={}ms @{}s)", k, ttl, base + step / 3); }
                Some(old) if rng.below(5) == 0 => { em.try_remove(&k, old).unwrap(); cur.remove(&k); op = format!("try_remove(k={})", k);
                    script.push(op.clone());
                    let after = listings(&em);
                    for (b, kk, c) in &before { if *kk != k && !after.contains(&(*b, *kk, *c)) {
                        fail("expiration_index_keeps_other_keys", "C05,C04:em.remove.others-kept", &["C05", "C04"], "ExpirationMap::try_remove", script.join("; "), format!("listing (bucket {}, key {}) disappeared", b, kk), "listings of other keys unchanged".into()); return; } }
                    continue; }
                Some(old) => { em.try_update(k, k + 100, old, now).unwrap(); op = format!("try_update(k={}, old_ttl={}ms, new_ttl={}ms @{}s)", k, old.d.as_millis(), ttl, base + step / 3); }
            }
            script.push(op);
            cur.insert(k, now);
            let after = listings(&em);
            // others kept
            for (b, kk, c) in &before {
                if *kk != k && !after.contains(&(*b, *kk, *c)) {
                    fail("expiration_index_keeps_other_keys", "C05,C04:em.update.others-kept", &["C05", "C04"], "ExpirationMap::try_update", script.join("; "),
                        format!("listing (bucket {}, key {}) disappeared", b, kk), "listings of other keys unchanged".into());
                    return;
                }
            }
            for (b, kk, _) in &after {
                if *kk != k && !before.iter().any(|(b2, k2, _)| b2 == b && k2 == kk) {
                    fail("expiration_index_keeps_other_keys", "C05,C04:em.update.others-kept", &["C05", "C04"], "ExpirationMap::try_update", script.join("; "),
                        format!("listing (bucket {}, key {}) appeared", b, kk), "listings of other keys unchanged".into());
                    return;
                }
            }
            // the key itself
            if !now.is_zero() && !listed(&em, bucket_of(now), k) {
                fail("expiration_index_keeps_other_keys", "C05,C03:em.update.listed", &["C05", "C03"], "ExpirationMap::try_update", script.join("; "),
                    format!("key {} not listed in bucket {}", k, bucket_of(now)), "listed in the bucket of its new deadline".into());
                return;
            }
            if now.is_zero() {
                for (b, kk, _) in &after {
                    if *kk == k && !before.iter().any(|(b2, k2, _)| b2 == b && k2 == kk) {
                        fail("expiration_index_keeps_other_keys", "C04,C03:em.update.no-new-listing-without-ttl", &["C04", "C03"], "ExpirationMap::try_update", script.join("; "),
                            format!("key {} without TTL newly listed in bucket {}", k, b), "a key without TTL gets no new listing".into());
                        return;
                    }
                }
            }
        }
    }
    });
}

#[test]
fn cleanup_hands_out_every_due_bucket() {
    if !only("cleanup_hands_out_every_due_bucket") { return; }
    guarded("cleanup_hands_out_every_due_bucket", || {
    let mut rng = Rng::new(12);
    for _ in 0..iters(2000) {
        let em = ExpirationMap::new();
        let base = 2_000_000 + rng.below(1000);
        let n = 1 + rng.below(6);
        let mut due = Vec::new();
        let mut later = Vec::new();
        let now_s = base + 3 + rng.below(3);
        let mut script = Vec::new();
        for k in 0..n {
            let ttl = 1000 * (1 + rng.below(8));
            let tm = t(base, (rng.below(1000) * 1_000_000) as u32, ttl);
            em.try_insert(k, 7, tm).unwrap();
            script.push(format!("try_insert(k={}, deadline bucket {})", k, bucket_of(tm)));
            if bucket_of(tm) <= now_s as i64 { due.push(k) } else { later.push((bucket_of(tm), k)) }
        }
        let now = t(now_s, 0, 0);
        script.push(format!("try_cleanup(now: cleanup bucket {})", (bucket_of(now) - 1)));
        let got = em.try_cleanup(now).unwrap();
        for k in &due {
            if !got.as_ref().map_or(false, |m| m.contains_key(k)) {
                fail("cleanup_hands_out_every_due_bucket", "C05:em.cleanup.every-due-listing-handed-out", &["C05"], "ExpirationMap::try_cleanup", script.join("; "),
                    format!("key {} (due) not handed out; returned {:?}", k, got.as_ref().map(|m| { let mut v: Vec<u64> = m.keys().copied().collect(); v.sort(); v })), "every listing in a bucket <= cleanup bucket is handed out".into());
                return;
            }
        }
        if let Some(m) = &got {
            for k in m.keys() {
                if !due.contains(k) {
                    fail("cleanup_hands_out_every_due_bucket", "C04,C05:em.cleanup.only-due", &["C04", "C05"], "ExpirationMap::try_cleanup", script.join("; "), format!("key {} handed out early", k), "only due listings".into());
                    return;
                }
            }
        }
        for (b, k) in &later {
            if !listed(&em, *b, *k) {
                fail("cleanup_hands_out_every_due_bucket", "C04,C05:em.cleanup.later-buckets-kept", &["C04", "C05"], "ExpirationMap::try_cleanup", script.join("; "), format!("listing ({},{}) lost", b, k), "later buckets untouched".into());
                return;
            }
        }
    }
    });
}

#[test]
fn store_cleanup_removes_only_expired() {
    if !only("store_cleanup_removes_only_expired") { return; }
    guarded("store_cleanup_removes_only_expired", || {
    use crate::policy::LFUPolicy;
    use crate::store::ShardedMap;
    use std::sync::Arc;
    let mut rng = Rng::new(13);
    for _ in 0..iters(300) {
        let s: ShardedMap<u64> = ShardedMap::new();
        let p = Arc::new(LFUPolicy::new(100, 1000).unwrap());
        let now_s = SystemTime::now().duration_since(UNIX_EPOCH).unwrap().as_secs();
        let mut script = Vec::new();
        let mut model: std::collections::HashMap<u64, (u64, Time)> = Default::default();
        let mut charged: std::collections::HashMap<u64, i64> = Default::default(); // what the policy was told to charge per key (0, 1 or 2)
        let nkeys = 2 + rng.below(5);
        // conflict hash of the key that owns each index (two user keys, conflict 1 and 2, share every index): writes and removes
        // made on behalf of the other key are refused by the store; a clear() leaves the old owner's listings behind
        let mut owner: std::collections::HashMap<u64, u64> = Default::default();
        let collide = rng.below(3) == 0;
        for _ in 0..(2 + rng.below(8)) {
            let k = rng.below(nkeys);
            let conf = if collide { 1 + rng.below(2) } else { 0 };
            let mine = owner.get(&k).map_or(true, |o| *o == conf || conf == 0);
            match rng.below(10) {
                8 | 9 => {
                    // lookups: hit iff the entry is there and its TTL (if any) has not elapsed; a lookup never changes what is resident
                    let mutable = rng.below(2) == 0;
                    let len0 = s.len();
                    let res0 = s.expiration(&k).is_some();
                    let got = if mutable { s.get_mut(&k, 0).map(|v| *v.value()) } else { s.get(&k, 0).map(|v| *v.value()) };
                    script.push(format!("{}({})", if mutable { "get_mut" } else { "get" }, k));
                    let want = model.get(&k).and_then(|(v, tm)| if !tm.is_zero() && tm.is_expired() { None } else { Some(*v) });
                    if got != want {
                        fail("store_cleanup_removes_only_expired", "C02,C03:store.get.hit-iff", &["C02", "C03", "C09"], if mutable { "ShardedMap::get_mut" } else { "ShardedMap::get" }, script.join("; "),
                            format!("{:?}", got), format!("{:?}", want));
                        return;
                    }
                    if s.len() != len0 || s.expiration(&k).is_some() != res0 {
                        fail("store_cleanup_removes_only_expired", "C06,C02:store.lookup.frame", &["C06", "C02", "C03", "C08"], if mutable { "ShardedMap::get_mut" } else { "ShardedMap::get" }, script.join("; "),
                            format!("len {} -> {}, key {} resident {} -> {}", len0, s.len(), k, res0, s.expiration(&k).is_some()), "a lookup leaves the set of resident entries alone (expired entries are reclaimed by the sweep, which also releases the charge)".into());
                        return;
                    }
                }
                0 => { s.clear(); p.clear(); model.clear(); owner.clear(); script.push("store.clear(); policy.clear()".to_string()); }
                1 => { if s.try_remove(&k, conf).unwrap().is_some() { p.remove(&k); } if mine { model.remove(&k); owner.remove(&k); } script.push(format!("try_remove({}, conflict {})", k, conf)); }
                _ => {
                    // created 5..20 s ago; ttl: none, already elapsed, or still running
                    let age = 5 + rng.below(15);
                    // (the 4th kind ends within the current second: possibly elapsed although its bucket is not due yet)
                    let ttl_ms = match rng.below(if collide { 4 } else { 3 }) { 0 => 0, 1 => 1000 * (1 + rng.below(age - 2)), 2 => 1000 * (age + 5 + rng.below(100)), _ => 1000 * age };
                    let tm = t(now_s - age, (rng.below(1000) * 1_000_000) as u32, ttl_ms);
                    let v = rng.below(1000);
                    if !mine {
                        // a write of the colliding key: the slot belongs to the other key, nothing may change
                        let _ = s.try_update(k, v, conf, tm).unwrap();
                        script.push(format!("try_update(k={}, conflict {} [slot owned by conflict {}], ttl={}ms, created {}s ago)", k, conf, owner[&k], ttl_ms, age));
                        continue;
                    }
                    if model.contains_key(&k) {
                        let _ = s.try_update(k, v, conf, tm).unwrap();
                        script.push(format!("try_update(k={}, conflict {}, ttl={}ms, created {}s ago)", k, conf, ttl_ms, age));
                    } else {
                        s.try_insert(k, v, conf, tm).unwrap();
                        owner.insert(k, conf);
                        let c = rng.below(3) as i64;
                        p.add(k, c);
                        charged.insert(k, c);
                        script.push(format!("try_insert(k={}, conflict {}, ttl={}ms, created {}s ago); policy.add({}, cost {})", k, conf, ttl_ms, age, k, c));
                    }
                    model.insert(k, (v, tm));
                }
            }
        }
        script.push("try_cleanup(policy)".to_string());
        let removed = s.try_cleanup(p.clone()).unwrap();
        let removed_keys: Vec<u64> = removed.iter().map(|i| i.index).collect();
        for (k, (v, tm)) in &model {
            let expired_ttl = !tm.is_zero() && tm.is_expired();
            let resident = s.expiration(k).is_some();
            if !resident && !expired_ttl {
                fail("store_cleanup_removes_only_expired", "C04,C05:cleanup.only-expired-ttl-entries-removed", &["C04", "C05", "C03", "C11", "C06", "C08"], "ShardedMap::try_cleanup", script.join("; "),
                    format!("key {} (value {}, ttl {:?}, zero={}) was swept", k, v, tm.d, tm.is_zero()), "cleanup removes only entries whose TTL has elapsed".into());
                return;
            }
            if resident && expired_ttl && bucket_of(*tm) <= now_s as i64 {
                fail("store_cleanup_removes_only_expired", "C05:cleanup.reclaims-every-expired-entry", &["C05", "C06"], "ShardedMap::try_cleanup", script.join("; "),
                    format!("key {} expired (bucket {}) but still resident", k, bucket_of(*tm)), "every expired entry in a due bucket is reclaimed".into());
                return;
            }
            if !resident {
                if removed_keys.iter().filter(|x| *x == k).count() != 1 {
                    fail("store_cleanup_removes_only_expired", "C05,C08:cleanup.handed-out-once", &["C05", "C08"], "ShardedMap::try_cleanup", script.join("; "),
                        format!("key {} handed out {} times", k, removed_keys.iter().filter(|x| *x == k).count()), "exactly once".into());
                    return;
                }
                if p.contains(k) {
                    fail("store_cleanup_removes_only_expired", "C06:cleanup.charge-released", &["C06", "C05", "C04"], "ShardedMap::try_cleanup", script.join("; "), format!("key {} still charged", k), "charge released".into());
                    return;
                }
            } else if !p.contains(k) {
                fail("store_cleanup_removes_only_expired", "C06:cleanup.charges-only-released-for-expired", &["C06"], "ShardedMap::try_cleanup", script.join("; "), format!("resident key {} lost its charge", k), "charge kept".into());
                return;
            }
        }
        for it in &removed {
            if Some(&it.cost) != charged.get(&it.index) || it.val != model.get(&it.index).map(|x| x.0) {
                fail("store_cleanup_removes_only_expired", "C05,C08,C16:cleanup.handed-out", &["C05", "C08", "C16"], "ShardedMap::try_cleanup", script.join("; "),
                    format!("item {} val {:?} cost {}", it.index, it.val, it.cost), format!("val {:?} cost {:?}", model.get(&it.index).map(|x| x.0), charged.get(&it.index)));
                return;
            }
        }
        let _ = p.close();
    }
    });
}
