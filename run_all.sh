#!/bin/sh
# run every registered quick check on /repo's current tree (used before committing evidence)
cd "$(dirname "$0")" || exit 2
rc=0
for p in $(python3 -c "import json; print(' '.join(c['property_id'] for c in json.load(open('MANIFEST.json'))['checks']))"); do
  ./check "$p" --tier "${1:-quick}" | tail -3 || rc=1
done
exit $rc
