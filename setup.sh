#!/bin/sh
# offline setup: nothing to download; warm the caches the checks use (idempotent)
cd "$(dirname "$0")" || exit 1
mkdir -p .cache evidence replays
python3 -c "import vx.driver" || exit 1
verus --version >/dev/null || exit 1
exit 0
