// ---- ghost theory: a duplicate-free sequence of |d| elements of a finite set d enumerates d ------------
pub proof fn lemma_seq_covers_set<A>(s: Seq<A>, d: Set<A>)
    requires s.no_duplicates(), forall|i: int| 0 <= i < s.len() ==> d.contains(#[trigger] s[i]), s.len() == d.len(),
    ensures forall|x: A| d.contains(x) ==> s.contains(x),
{
    s.unique_seq_to_set();
    assert(s.to_set().subset_of(d));
    vstd::set_lib::lemma_subset_equality(s.to_set(), d);
    assert(s.to_set() =~= d);
    assert forall|x: A| d.contains(x) implies s.contains(x) by { assert(s.to_set().contains(x)); }
}
