// ---- ghost theory: two 4-bit counters per byte (proved by bit-vector reasoning) -----------------------
pub open spec fn nib(b: u8, odd: bool) -> u8 {
    if odd { (b >> 4) & 0x0f } else { b & 0x0f }
}

pub open spec fn min15(x: int) -> int { if x < 15 { x } else { 15 } }

pub proof fn lemma_shift(i: u64)
    ensures (i & 1) <= 1, (i & 1) == i % 2, (i & 1) * 4 == 0 || (i & 1) * 4 == 4,
{
    assert((i & 1) <= 1) by (bit_vector);
    assert((i & 1) == i % 2) by (bit_vector);
}

pub proof fn lemma_nib(b: u8)
    ensures
        ((b >> 0u64) & 0x0f) == nib(b, false), ((b >> 4u64) & 0x0f) == nib(b, true),
        nib(b, false) <= 15, nib(b, true) <= 15,
        nib(b, false) < 15 ==> b + 1 <= 255 && nib((b + 1) as u8, false) == nib(b, false) + 1 && nib((b + 1) as u8, true) == nib(b, true),
        nib(b, true) < 15 ==> b + 16 <= 255 && nib((b + 16) as u8, true) == nib(b, true) + 1 && nib((b + 16) as u8, false) == nib(b, false),
        (1u8 << 0u64) == 1, (1u8 << 4u64) == 16,
{
    assert(((b >> 0u64) & 0x0f) == b & 0x0f) by (bit_vector);
    assert(((b >> 4u64) & 0x0f) <= 15) by (bit_vector);
    assert((b & 0x0f) <= 15) by (bit_vector);
    assert((b & 0x0f) < 15 ==> b < 255 && ((add(b, 1)) & 0x0f) == add(b & 0x0f, 1) && (add(b, 1) >> 4) & 0x0f == (b >> 4) & 0x0f) by (bit_vector);
    assert(((b >> 4) & 0x0f) < 15 ==> b < 240 && ((add(b, 16) >> 4) & 0x0f) == add((b >> 4) & 0x0f, 1) && add(b, 16) & 0x0f == b & 0x0f) by (bit_vector);
    assert((1u8 << 0u64) == 1) by (bit_vector);
    assert((1u8 << 4u64) == 16) by (bit_vector);
}

pub proof fn lemma_halve(b: u8)
    ensures
        nib((b >> 1) & 0x77, false) == nib(b, false) / 2,
        nib((b >> 1) & 0x77, true) == nib(b, true) / 2,
{
    assert((((b >> 1) & 0x77) & 0x0f) == (b & 0x0f) / 2) by (bit_vector);
    assert(((((b >> 1) & 0x77) >> 4) & 0x0f) == ((b >> 4) & 0x0f) / 2) by (bit_vector);
}

pub proof fn lemma_nib_zero()
    ensures nib(0u8, false) == 0, nib(0u8, true) == 0,
{
    assert((0u8 & 0x0f) == 0) by (bit_vector);
    assert(((0u8 >> 4) & 0x0f) == 0) by (bit_vector);
}

pub proof fn lemma_mask_index(x: u64, mask: u64)
    ensures (x & mask) <= mask,
{
    assert((x & mask) <= mask) by (bit_vector);
}
