// ---- ghost theory: the sum of all charges of a finite key -> cost map (proved, no executable code) --
pub open spec fn sum_costs(m: Map<u64, i64>) -> int
    decreases m.dom().len()
{
    if m.dom().len() == 0 { 0 } else {
        let k = m.dom().choose();
        m[k] as int + sum_costs(m.remove(k))
    }
}

pub proof fn lemma_sum_empty(m: Map<u64, i64>)
    requires m.dom().len() == 0
    ensures sum_costs(m) == 0
{ }

pub proof fn lemma_sum_remove(m: Map<u64, i64>, k: u64)
    requires m.contains_key(k)
    ensures sum_costs(m) == m[k] as int + sum_costs(m.remove(k))
    decreases m.dom().len()
{
    let c = m.dom().choose();
    if m.dom().len() == 0 { assert(false); }
    if c == k { } else {
        lemma_sum_remove(m.remove(c), k);
        lemma_sum_remove(m.remove(k), c);
        assert(m.remove(c).remove(k) =~= m.remove(k).remove(c));
    }
}

pub proof fn lemma_sum_insert_new(m: Map<u64, i64>, k: u64, v: i64)
    requires !m.contains_key(k)
    ensures sum_costs(m.insert(k, v)) == sum_costs(m) + v
{
    lemma_sum_remove(m.insert(k, v), k);
    assert(m.insert(k, v).remove(k) =~= m);
}

pub proof fn lemma_sum_update(m: Map<u64, i64>, k: u64, v: i64)
    requires m.contains_key(k)
    ensures sum_costs(m.insert(k, v)) == sum_costs(m) - m[k] + v
{
    lemma_sum_remove(m.insert(k, v), k);
    lemma_sum_remove(m, k);
    assert(m.insert(k, v).remove(k) =~= m.remove(k));
}

pub open spec fn costs_nonneg(m: Map<u64, i64>) -> bool { forall|k: u64| m.contains_key(k) ==> 0 <= #[trigger] m[k] }

pub proof fn lemma_sum_nonneg(m: Map<u64, i64>)
    requires costs_nonneg(m)
    ensures sum_costs(m) >= 0
    decreases m.dom().len()
{
    if m.dom().len() != 0 { let k = m.dom().choose(); lemma_sum_nonneg(m.remove(k)); }
}

pub proof fn lemma_sum_ge(m: Map<u64, i64>, k: u64)
    requires costs_nonneg(m), m.contains_key(k)
    ensures sum_costs(m) >= m[k], sum_costs(m.remove(k)) >= 0
{
    lemma_sum_remove(m, k);
    lemma_sum_nonneg(m.remove(k));
}
