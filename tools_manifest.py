#!/usr/bin/env python3
"""Regenerates MANIFEST.json from vx/registry.py + manifest_text.py (kept in sync mechanically)."""
import json, os, sys
sys.path.insert(0, os.path.dirname(os.path.abspath(__file__)))
from vx import registry
import manifest_text as mt

props = [json.loads(l)["id"] for l in open(os.path.join(os.path.dirname(os.path.abspath(__file__)), "properties.jsonl"))]
checks, na = [], []
for pid in props:
    if pid in registry.PROPS and pid in mt.CLAIMS:
        c = mt.CLAIMS[pid]
        checks.append(dict(
            property_id=pid,
            quick_cmd="./check %s --tier quick" % pid,
            thorough_cmd="./check %s --tier thorough" % pid,
            evidence_file="evidence/%s.json" % pid,
            replay_cmd_template="./check %s --replay {path}" % pid,
            engine="vx",
            level_claimed=dict(category=c.get("category", "proof"), text=c["text"], design_ref=c.get("design_ref", "DESIGN.md §7")),
            level_note=c["note"],
            technique=c.get("technique", "contract-based deductive verification (Verus on mechanically extracted real functions; Kani contracts/harnesses on the crate in place)"),
        ))
    else:
        na.append(dict(property_id=pid, reason=mt.NOT_APPLICABLE.get(pid, "not reached yet by this machinery; no check is claimed")))
m = dict(
    version=1,
    setup_cmd="./setup.sh",
    hooks=dict(guard="transparencies_stretto_verif", enable="none needed: checks read /repo's working tree, copy it to a scratch directory and append #[cfg(kani)] / #[cfg(test)] child modules there; /repo itself carries no hooks",
               baseline_off_cmd="cd /repo && cargo test --workspace --no-fail-fast --offline", source_commits=[], add_only=True),
    engines=[dict(name="vx", path="vx/", serves_properties=[c["property_id"] for c in checks],
                  kind_free_text="contract-based deductive verification: Python extractor (vx/extract.py, vx/rules.py) cuts the real functions out of /repo on every run, vx/unit.py attaches the contracts in units/*.vrs, Verus discharges them; Kani harnesses in kani/*.rs are compiled into a scratch copy of the crate; replay/*.rs are executable oracles of the same contracts used only to find concrete failing inputs")],
    checks=checks,
    notes=mt.NOTES,
    not_applicable=na,
)
json.dump(m, open(os.path.join(os.path.dirname(os.path.abspath(__file__)), "MANIFEST.json"), "w"), indent=1)
print("MANIFEST.json: %d checks, %d not_applicable" % (len(checks), len(na)))
