#!/usr/bin/env python3
"""Systematic mutation sweep (a development aid, NOT a registered check; DESIGN.md §10b).

For every function of /repo that is under contract (the union of the functions the Verus units extract), every site where one of
a fixed list of syntactic mutation operators applies is mutated, one site at a time, on a scratch copy, and the mutant is taken
through the same machinery the registered checks use:

  phase 1  the Verus units that extract from the mutated file + the Kani groups that cover it   -> killed by a named obligation?
  phase 2  (not killed) the crate's own 75 tests                                               -> stillborn / killed by the tests?
  phase 3  (compiles, tests pass) the registered quick checks of the properties that depend on the file, in full
           (guards, probes, bounded stand-in)                                                   -> caught by a check, or SURVIVOR

A SURVIVOR is either an equivalent mutant (no observable change) or a gap in the contracts; survivors are listed for triage in
mutants/sweep_report.json.  Nothing here changes a verdict of ./check.

usage: tools_mutsweep.py [--files src/policy.rs,...] [--jobs N] [--limit N] [--phase1-only] [--out mutants/sweep_report.json]
"""
import concurrent.futures as cf
import json
import os
import re
import shutil
import subprocess
import sys
import tempfile
import threading
import time

ROOT = os.path.dirname(os.path.abspath(__file__))
sys.path.insert(0, ROOT)
from vx import registry, driver, kani            # noqa: E402
from vx.unit import assemble                     # noqa: E402
from vx.extract import Undecided                 # noqa: E402

REPO = os.environ.get("VERIF_REPO", "/repo")

KANI_BY_FILE = {"src/bbloom.rs": ["bbloom"], "src/sketch.rs": ["sketch"], "src/ttl.rs": ["ttl"], "src/utils.rs": ["keys"],
                "src/histogram.rs": ["histogram"]}
PROPS_BY_FILE = {
    "src/bbloom.rs": ["C14", "C13"], "src/sketch.rs": ["C15", "C13", "C11"],
    "src/policy.rs": ["C07", "C01", "C13", "C16", "C17", "C11", "C06"],
    "src/policy/sync.rs": ["C07", "C15", "C01"], "src/policy/async.rs": ["C19", "C07", "C15"],
    "src/store.rs": ["C02", "C03", "C05", "C04", "C08", "C18", "C16"],
    "src/ttl.rs": ["C05", "C03", "C04"],
    "src/cache.rs": ["C16", "C08", "C17", "C09", "C02", "C06", "C11", "C20", "C18", "C15"],
    "src/cache/sync.rs": ["C11", "C02", "C17", "C15", "C20"], "src/cache/async.rs": ["C19", "C11", "C02"],
    "src/cache/builder.rs": ["C20", "C16"], "src/ring.rs": ["C15"], "src/ring/sync.rs": ["C15"], "src/ring/async.rs": ["C19", "C15"],
    "src/metrics.rs": ["C17", "C11"], "src/histogram.rs": ["C17", "C11"], "src/utils.rs": ["C18", "C02", "C09"],
}


def fn_extent(lines, start):
    """0-based [start, end] line range of the fn whose `fn` keyword is on (or just after) line `start` (naive brace matching,
    good enough for rustfmt'd code: comments and string/char literals are skipped)"""
    depth, seen, k = 0, False, start
    while k < len(lines):
        ln = re.sub(r'"(?:\\.|[^"\\])*"', '""', lines[k])
        ln = re.sub(r"'(?:\\.|[^'\\])'", "' '", ln)
        ln = ln.split("//")[0]
        for ch in ln:
            if ch == "{":
                depth += 1
                seen = True
            elif ch == "}":
                depth -= 1
        if seen and depth <= 0:
            return start, k
        if not seen and ln.rstrip().endswith(";"):
            return start, k
        k += 1
    return start, len(lines) - 1


def targets():
    """{file: {(lo, hi, fn)}} and {file: [units]} from the assembled units on the clean tree"""
    spans, units_of = {}, {}
    for u, cfg in registry.VERUS_UNITS.items():
        try:
            asm = assemble(os.path.join(ROOT, cfg["template"]), REPO, ROOT)
        except Undecided as e:
            print("unit %s does not assemble: %s" % (u, e))
            continue
        for fn, meta in asm.fns.items():
            f = meta["file"]
            units_of.setdefault(f, [])
            if u not in units_of[f]:
                units_of[f].append(u)
            with open(os.path.join(REPO, f)) as fh:
                lines = fh.read().split("\n")
            lo, hi = fn_extent(lines, meta["line"] - 1)
            spans.setdefault(f, set()).add((lo, hi, fn))
    return spans, units_of


OPS = [
    ("ror", r" <= ", " < "), ("ror", r" >= ", " > "), ("ror", r" < ", " <= "), ("ror", r" > ", " >= "),
    ("ror", r" == ", " != "), ("ror", r" != ", " == "),
    ("aor", r" \+ ", " - "), ("aor", r" - ", " + "), ("aor", r" \+= ", " -= "), ("aor", r" -= ", " += "), ("aor", r" \* ", " + "),
    ("aor", r" / ", " * "), ("aor", r" % ", " / "), ("bit", r" & ", " | "), ("bit", r" \| ", " & "), ("bit", r" \^ ", " | "),
    ("bit", r" << ", " >> "), ("bit", r" >> ", " << "),
    ("cor", r" && ", " || "), ("cor", r" \|\| ", " && "),
    ("neg", r"\bif !", "if "), ("neg", r"\bwhile !", "while "),
    ("bool", r"\btrue\b", "false"), ("bool", r"\bfalse\b", "true"),
    ("opt", r"\.is_some\(\)", ".is_none()"), ("opt", r"\.is_none\(\)", ".is_some()"),
    ("sat", r"\.saturating_add\(", ".wrapping_add("), ("sat", r"\.saturating_sub\(", ".wrapping_sub("),
    ("mm", r"\.min\(", ".max("), ("mm", r"\.max\(", ".min("),
]
LIT = re.compile(r"(?<![\w.])(\d+)(?![\w.]|\s*\.\.)")
STMT = re.compile(r"^\s*(?:[\w.&*\[\]()]+)\.\w+\((?:[^;]*)\);\s*$")
ASSIGN = re.compile(r"^\s*[\w.\[\]*]+\s*(?:\+=|-=|=)\s*[^;=]+;\s*$")


def gen(spans, only_files=None):
    muts = []
    for f in sorted(spans):
        if only_files and f not in only_files:
            continue
        with open(os.path.join(REPO, f)) as fh:
            lines = fh.read().split("\n")
        done = set()
        for (lo, hi, fn) in sorted(spans[f]):
            in_sig = True
            for k in range(lo, hi + 1):
                ln = lines[k]
                if in_sig:
                    if "{" in ln:
                        in_sig = False
                    continue
                code = ln.split("//")[0]
                if not code.strip() or code.strip().startswith("#") or '"' in code or "macro_rules" in code:
                    continue
                cand = []
                for (kind, rx, to) in OPS:
                    for m in re.finditer(rx, code):
                        cand.append((kind, code[:m.start()] + to + code[m.end():]))
                for m in LIT.finditer(code):
                    n = int(m.group(1))
                    if n > 4096:
                        continue
                    cand.append(("lit", code[:m.start()] + str(n + 1) + code[m.end():]))
                    if n > 0:
                        cand.append(("lit", code[:m.start()] + str(n - 1) + code[m.end():]))
                if (STMT.match(code) or ASSIGN.match(code)) and not re.match(r"^\s*(let|return|break|continue)\b", code):
                    cand.append(("del", re.match(r"^\s*", code).group(0) + "();" if False else ""))
                for (kind, new) in cand:
                    key = (k, new)
                    if key in done or new == code:
                        continue
                    done.add(key)
                    muts.append(dict(id="%s:%d:%s:%d" % (f, k + 1, kind, len(muts)), file=f, line=k + 1, fn=fn, op=kind,
                                     before=ln.strip(), after=new.strip()))
                    muts[-1]["_new"] = new + (ln[len(code):] if kind != "del" else "")
    return muts


class Worker:
    def __init__(self, k, base):
        self.dir = os.path.join(base, "w%d" % k)
        self.repo = os.path.join(self.dir, "repo")
        self.target = os.path.join(self.dir, "target")
        os.makedirs(self.dir, exist_ok=True)
        subprocess.run(["rsync", "-a", "--exclude", "target", "--exclude", ".git", REPO.rstrip("/") + "/", self.repo + "/"], check=True)


def phase1(m, w, units_of):
    work = tempfile.mkdtemp(prefix="ms1-", dir=w.dir)
    try:
        res = dict(killed_by=[], undecided=[])
        us = units_of.get(m["file"], [])
        with cf.ThreadPoolExecutor(max_workers=4) as ex:
            outs = list(ex.map(lambda u: driver.run_unit(u, w.repo, work, "quick"), us))
        for o in outs:
            for f in o["failures"]:
                if f.fn == "<template>":
                    res["undecided"].append("%s: template obligation" % o["name"])
                    continue
                so = registry.SECOND_OPINION.get(f.fn)
                res["killed_by"].append("%s:%s/%s%s" % (o["name"], f.fn, f.label, " (second-opinion fn)" if so else ""))
            res["undecided"] += [x[:160] for x in o["undecided"]]
        if not [x for x in res["killed_by"] if "second-opinion" not in x]:
            groups = KANI_BY_FILE.get(m["file"], [])
            if groups:
                for kr in kani.run_groups(groups, None, w.repo, work, "quick"):
                    for h in kr["harnesses"]:
                        if h["status"] == "FAILED":
                            res["killed_by"].append("kani:%s:%s" % (kr["group"], h["name"]))
                    res["undecided"] += [x[:160] for x in kr["undecided"]]
                if any(x.startswith("kani:") for x in res["killed_by"]) is False:
                    res["killed_by"] = [x for x in res["killed_by"] if "second-opinion" not in x]
        return res
    finally:
        shutil.rmtree(work, ignore_errors=True)


def phase2(m, w):
    env = dict(os.environ, CARGO_TARGET_DIR=w.target, CARGO_NET_OFFLINE="true", RUSTFLAGS="-Awarnings")
    # own process group: on a timeout the hung test binary (a grandchild) must die with cargo
    import signal
    pr = subprocess.Popen(["cargo", "test", "--offline", "--lib", "--quiet"], cwd=w.repo, env=env, stdout=subprocess.PIPE, stderr=subprocess.STDOUT, text=True, start_new_session=True)
    try:
        out, _ = pr.communicate(timeout=600)
    except subprocess.TimeoutExpired:
        os.killpg(pr.pid, signal.SIGKILL)
        pr.communicate()
        return "tests-hang"

    class p:     # noqa
        returncode = pr.returncode
    if p.returncode == 0:
        return "tests-pass"
    if re.search(r"^error(\[E\d+\])?:", out, re.M) and "test result" not in out:
        return "stillborn"
    # several of the crate's tests are timing-dependent and fail under load on the pristine tree too: a failure counts only if the
    # same test fails again twice when run on its own
    failed = sorted(set(re.findall(r"^    ([\w:]+)$", out.split("failures:")[-1], re.M)))
    if not failed:
        return "tests-fail"
    for t in failed:
        bad = 0
        for _ in range(2):
            try:
                q = subprocess.run(["cargo", "test", "--offline", "--lib", "--quiet", t, "--", "--exact", "--test-threads", "1"], cwd=w.repo, env=env, capture_output=True, text=True, timeout=600)
                bad += (q.returncode != 0)
            except subprocess.TimeoutExpired:
                bad += 1
        if bad == 2:
            return "tests-fail:" + t.split("::")[-1]
    return "tests-pass"


GUARDED = ("C20", "C19")      # properties whose quick check runs bounded guards besides the proofs


def phase3(m, w, p1):
    """the registered quick checks add to phase 1: the bounded guards (always) and the bounded stand-in (only when the verifier was
    undecided).  So: every dependent property when phase 1 left undecided notes, otherwise only the guarded ones."""
    props = PROPS_BY_FILE.get(m["file"], [])
    if not p1["undecided"]:
        props = [p for p in props if p in GUARDED]
    for pid in props:
        out = tempfile.mkdtemp(prefix="ms3-", dir=w.dir)
        try:
            env = dict(os.environ, VERIF_REPO=w.repo, VERIF_OUT=out, VERIF_TIER="quick")
            p = subprocess.run([sys.executable, "-m", "vx.driver", pid, "--tier", "quick"], cwd=ROOT, env=env, capture_output=True, text=True, timeout=3000)
            v = [l for l in p.stdout.split("\n") if l.startswith("VIOLATION")]
            if p.returncode == 1 and v:
                return "caught:%s%s" % (pid, "" if any("no-failing-input-found" in l for l in v) else "+input")
        except subprocess.TimeoutExpired:
            pass
        finally:
            shutil.rmtree(out, ignore_errors=True)
    return "SURVIVOR"


def main():
    args = sys.argv[1:]
    opt = dict(files=None, jobs=4, limit=None, p1=False, out=os.path.join(ROOT, "mutants", "sweep_report.json"), ops=None, skip=0)
    i = 0
    while i < len(args):
        if args[i] == "--files":
            opt["files"] = args[i + 1].split(","); i += 2
        elif args[i] == "--jobs":
            opt["jobs"] = int(args[i + 1]); i += 2
        elif args[i] == "--limit":
            opt["limit"] = int(args[i + 1]); i += 2
        elif args[i] == "--ops":
            opt["ops"] = args[i + 1].split(","); i += 2
        elif args[i] == "--out":
            opt["out"] = args[i + 1]; i += 2
        elif args[i] == "--phase1-only":
            opt["p1"] = True; i += 1
        elif args[i] == "--skip":
            opt["skip"] = int(args[i + 1]); i += 2
        elif args[i] == "--recheck":
            opt["recheck"] = args[i + 1]; i += 2
        elif args[i] == "--recheck-verdict":
            opt["recheck_verdict"] = args[i + 1]; i += 2
        elif args[i] == "--list":
            opt["list"] = True; i += 1
        else:
            i += 1
    spans, units_of = targets()
    muts = gen(spans, opt["files"])
    if opt.get("recheck"):
        with open(opt["recheck"]) as f:
            prev = json.load(f)
        want = set((r["file"], r["line"], r["after"]) for r in prev["results"] if r.get("verdict", "").startswith(opt.get("recheck_verdict", "tests-fail")))
        muts = [m for m in muts if (m["file"], m["line"], m["after"]) in want]
    if opt["ops"]:
        muts = [m for m in muts if m["op"] in opt["ops"]]
    if opt["limit"]:
        step = max(1, len(muts) // opt["limit"])
        muts = muts[::step][:opt["limit"]]
    muts = muts[opt["skip"]:]
    print("%d mutants over %d functions in %d files" % (len(muts), sum(len(v) for v in spans.values()), len(spans)))
    if opt.get("list"):
        for m in muts:
            print("%-40s %-34s | %s  ->  %s" % (m["id"], m["fn"], m["before"][:60], m["after"][:60]))
        return 0
    base = tempfile.mkdtemp(prefix="mutsweep-", dir="/tmp")
    workers = [Worker(k, base) for k in range(opt["jobs"])]
    free = list(workers)
    lock = threading.Lock()
    results = []
    t0 = time.time()

    def one(m):
        with lock:
            w = free.pop()
        p = os.path.join(w.repo, m["file"])
        with open(p) as fh:
            orig = fh.read()
        try:
            lines = orig.split("\n")
            lines[m["line"] - 1] = m["_new"]
            with open(p, "w") as fh:
                fh.write("\n".join(lines))
            r = dict((k, v) for k, v in m.items() if not k.startswith("_"))
            p1 = phase1(m, w, units_of)
            r["phase1"] = p1
            if p1["killed_by"]:
                r["verdict"] = "killed-by-obligation"
            elif opt["p1"]:
                r["verdict"] = "not-killed(phase1)"
            else:
                t = phase2(m, w)
                r["tests"] = t
                if t != "tests-pass":
                    r["verdict"] = t
                else:
                    r["verdict"] = phase3(m, w, p1)
            return r
        except Exception as e:      # noqa
            return dict(id=m["id"], verdict="tool-error: %r" % (e,))
        finally:
            with open(p, "w") as fh:
                fh.write(orig)
            with lock:
                free.append(w)

    try:
        with cf.ThreadPoolExecutor(max_workers=opt["jobs"]) as ex:
            for n, r in enumerate(ex.map(one, muts)):
                results.append(r)
                print("[%4d/%d %5.0fs] %-22s %-38s %s -> %s" % (n + 1, len(muts), time.time() - t0, r.get("verdict"), r.get("id"), r.get("before", "")[:50], r.get("after", "")[:50]), flush=True)
                if (n + 1) % 20 == 0:
                    _write(opt["out"], results, muts, t0)
    finally:
        shutil.rmtree(base, ignore_errors=True)
    _write(opt["out"], results, muts, t0)
    return 0


def _write(path, results, muts, t0):
    tally = {}
    for r in results:
        v = r.get("verdict", "?").split(":")[0]
        tally[v] = tally.get(v, 0) + 1
    with open(path, "w") as fo:
        json.dump(dict(tree=subprocess.run(["git", "-C", REPO, "rev-parse", "--short", "HEAD"], capture_output=True, text=True).stdout.strip(),
                       generated=len(muts), done=len(results), wall_s=round(time.time() - t0), tally=tally,
                       survivors=[r for r in results if r.get("verdict") == "SURVIVOR"],
                       results=results), fo, indent=1)


if __name__ == "__main__":
    sys.exit(main())
