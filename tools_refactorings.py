#!/usr/bin/env python3
"""tools_refactorings.py <dir with rK.diff> [rK.diff ...]: false-alarm regression over behaviour-preserving patches written by independent agents (refactorings/R1..R5): apply each to a scratch copy and run the quick checks of every property that depends
on the touched files; rc=1 on a behaviour-preserving patch is a FALSE ALARM"""
import sys,os,re,glob,subprocess,tempfile,shutil,json
sys.path.insert(0,'/verif')
from tools_mutsweep import PROPS_BY_FILE
d=sys.argv[1]; only=sys.argv[2:] 
for pf in sorted(glob.glob(d+'/r*.diff')):
    name=os.path.basename(pf)
    if only and name not in only: continue
    files=sorted(set(re.findall(r'^\+\+\+ b/(\S+)',open(pf).read(),re.M)))
    props=[]
    for f in files:
        for p in PROPS_BY_FILE.get(f,[]):
            if p not in props: props.append(p)
    S=tempfile.mkdtemp(prefix='ref-',dir='/tmp'); O=tempfile.mkdtemp(prefix='refout-',dir='/tmp')
    subprocess.run(['rsync','-a','--exclude','target','--exclude','.git','/repo/',S+'/'],check=True)
    ap=subprocess.run(['patch','-p1','-s','--no-backup-if-mismatch'],cwd=S,stdin=open(pf),capture_output=True,text=True)
    if ap.returncode!=0:
        print(name,'PATCH FAILED',ap.stdout[:200]); shutil.rmtree(S); shutil.rmtree(O); continue
    res=[]
    for p in props:
        env=dict(os.environ,VERIF_REPO=S,VERIF_OUT=O)
        r=subprocess.run(['/verif/check',p],env=env,capture_output=True,text=True)
        res.append((p,r.returncode))
        if r.returncode==1:
            for l in r.stdout.split('\n'):
                if l.startswith('VIOLATION'):
                    m=re.search(r'replay=(\S+)',l)
                    try: fo=json.load(open(m.group(1))).get('failed_obligation')
                    except Exception: fo='?'
                    print('    ',p,'FALSE-ALARM?',fo, flush=True)
        elif r.returncode==2:
            u=[l for l in r.stdout.split('\n') if l.startswith('UNDECIDED')]
            print('    ',p,'undecided:',(u[0][:230] if u else ''), flush=True)
    print(name,files,' '.join('%s=%d'%x for x in res),flush=True)
    shutil.rmtree(S); shutil.rmtree(O)
