#!/bin/bash
# Regression over the seeded corpus: every seeded/<id>/patch.diff is applied to a scratch copy of /repo (never to /repo itself)
# and the quick check of its property must report a violation (exit 1).  Usage: ./tools_seeded.sh [id ...]
# NOTE: the checks rewrite evidence/*.json from the mutated copies; run ./run_all.sh afterwards before committing evidence.
cd "$(dirname "$0")"
ids="$@"; [ -z "$ids" ] && ids=$(ls seeded)
one() {
  id=$1; prop=$(python3 -c "import json;print(json.load(open('seeded/$id/meta.json'))['property'])")
  sup=$(python3 -c "import json;print(json.load(open('seeded/$id/meta.json')).get('superseded_by',''))")
  if [ -n "$sup" ]; then echo "$id $prop skipped (kept for the record: $sup)"; return; fi
  S=$(mktemp -d /tmp/seedXXXX)
  rsync -a --exclude target --exclude .git /repo/ $S/
  # patch_current.diff = the same change ported onto the current tree (written when a later fix: commit touched the same lines)
  pf=/verif/seeded/$id/patch.diff; [ -f /verif/seeded/$id/patch_current.diff ] && pf=/verif/seeded/$id/patch_current.diff
  if ! (cd $S && patch -p1 -s --no-backup-if-mismatch < $pf >/dev/null 2>&1); then echo "$id $prop PATCH-DOES-NOT-APPLY"; rm -rf $S; return; fi
  O=$(mktemp -d /tmp/seedoutXXXX); out=$(VERIF_OUT=$O VERIF_REPO=$S ./check $prop 2>&1); rc=$?
  lane=$(echo "$out" | grep -c "^VIOLATION")
  nf=$(echo "$out" | grep -c "no-failing-input-found")
  und=$(echo "$out" | grep -c "^UNDECIDED")
  echo "$id $prop rc=$rc violations=$lane without-input=$nf undecided-notes=$und"
  rm -rf $S $O
}
export -f one
printf "%s\n" $ids | xargs -P 3 -I{} bash -c 'one {}'
