"""Rule RH (helper adoption) and rule R5d (Deref resolution), both driven by the verifier's own name-resolution errors.

A contract unit contains only the functions its template names.  A change to /repo that moves a piece of one of those
functions into a NEW small method (`fn is_empty(&self) -> bool { self.elem_num == 0 }`) or that calls a method of a newtype's
Deref target for the first time would make rustc reject the unit ("no method named ... found"), i.e. the check would fall
back to exit 2 / the bounded stand-in although nothing is wrong with the contracts.  Instead:

RH   the named method (or free function) is looked up in the real sources of the unit; if it exists it is extracted with the
     unit's ordinary rewrite rules and appended to the unit in an impl block whose header is copied from the template.  Its
     contract is derived, not written: for a `&self` / by-value method whose body is one side-effect-free expression the
     postcondition is `res == (<that expression>)` (the strongest one; Verus proves it from the real body); anything else is
     adopted *opaque* (no postcondition).  Failures located inside an adopted helper, and failures of functions that call an
     opaque helper, are never reported as violations: they become undecided notes (the stand-in decides).
R5d  `x.m(..)` rejected for newtype `T` whose real `impl Deref for T` is literally `&self.<f>` becomes `x.<f>.m(..)` at the
     reported span (what auto-deref does).

Both are recorded in the evidence (`rewrite_rule_hits`, notes)."""
import re

from .extract import find_fn, Undecided
from .rustlex import Src
from . import unit as U

E0599 = re.compile(r"no method named `(\w+)` found for (?:[a-z ]+ )?`([^`]+)`")
E0425 = re.compile(r"cannot find function `(\w+)` in this scope")
END_MARK = re.compile(r"^\}\s*//\s*verus!")


def _base_type(t):
    t = t.strip()
    t = re.sub(r"^&\s*(mut\s+)?", "", t)
    t = re.sub(r"^&\s*(mut\s+)?", "", t)
    t = re.sub(r"<.*$", "", t)
    return t.split("::")[-1].strip()


def _files(asm):
    fs = []
    for f in asm.fns.values():
        if f["file"] not in fs:
            fs.append(f["file"])
    return fs


def _impl_header(asm, tname):
    rx = re.compile(r"^\s*impl\b[^{]*\b%s\b[^{]*\{\s*$" % re.escape(tname))
    for k, ln in enumerate(asm.lines):
        if asm.origin[k].kind in ("template", "include") and rx.match(ln) and " for " not in ln:
            return ln.strip()
    return None


def _single_expr(body):
    b = body.strip()
    if not b or any(x in b for x in (";", "{", "}", "return", "?", "!(", "|", "unsafe", " as ")):
        return None
    s = Src(b)
    for p in range(len(s)):
        if s.kind(p) == "ident" and s.is_(p + 1, "!"):
            return None
    return b


def _state(asm):
    st = getattr(asm, "adopt", None)
    if st is None:
        end = None
        for k in range(len(asm.lines) - 1, -1, -1):
            if END_MARK.match(asm.lines[k].strip()):
                end = k
                break
        st = dict(end=end, helpers={}, order=[], deref=0)
        asm.adopt = st
        asm.base_tail = (asm.lines[end:], asm.origin[end:]) if end is not None else None
    return st


def _rebuild(asm, repo):
    """re-emit every adopted helper between the unit's last item and `} // verus!`"""
    st = asm.adopt
    end = st["end"]
    tail_lines, tail_origin = asm.base_tail
    del asm.lines[end:]
    del asm.origin[end:]
    for name in st["order"]:
        h = st["helpers"][name]
        asm.fns.pop(h.get("emitted_as", ""), None)
        tmp = U.Assembled()
        spec = dict(file=h["file"], item=h["item"], kw=dict(h.get("kw", {})), props=[], attrs=[], sig=None, rules=[], requires=[], loops={},
                    entry=[], anchors=[], line=0,
                    ensures=([] if h["opaque"] else ["[AUTO:helper.body-is-the-contract] res == (%s)," % h["expr"]]))
        if h["header"]:
            asm.emit(h["header"], U.Origin(kind="template"))
        U._emit_fn(tmp, spec, repo, False)
        asm.lines += tmp.lines
        asm.origin += tmp.origin
        for k, v in tmp.fns.items():
            v["auto"] = True
            v["opaque"] = h["opaque"]
            v["method"] = h["method"]
            asm.fns[k] = v
            h["emitted_as"] = k
        for k, v in tmp.rule_hits.items():
            asm.rule_hits[k] = asm.rule_hits.get(k, 0) + v
        if h["header"]:
            asm.emit("}", U.Origin(kind="template"))
    asm.lines += tail_lines
    asm.origin += tail_origin


def adopt(asm, res, repo):
    """inspect the rejections of one verifier run; returns True when the unit text was changed and should be re-run"""
    st = _state(asm)
    if st["end"] is None:
        return False
    changed = False
    rebuild = False
    for rj in getattr(res, "rejections", []):
        msg, spans = rj["message"], rj["spans"]
        prim = [sp for sp in spans if sp.get("is_primary")] or spans
        ln = (prim[0].get("line_start", 1) - 1) if prim else -1
        o = asm.origin[ln] if 0 <= ln < len(asm.origin) else None
        # (b) a rejection inside an adopted helper that carries a derived postcondition: keep the helper, drop the postcondition
        if o is not None and o.fn and asm.fns.get(o.fn, {}).get("auto"):
            for h in st["helpers"].values():
                if h.get("emitted_as") == o.fn and not h["opaque"]:
                    h["opaque"] = True
                    asm.notes.append("RH: derived postcondition of adopted helper %s is not expressible (%s); adopted opaque" % (o.fn, msg.split("\n")[0][:120]))
                    rebuild = True
            continue
        m = E0599.search(msg)
        m2 = E0425.search(msg)
        if m:
            meth, tname = m.group(1), _base_type(m.group(2))
            key = "%s::%s" % (tname, meth)
            if key in st["helpers"]:
                continue
            found = None
            hkw = {}
            hitem = key
            for file in _files(asm):
                try:
                    found = find_fn(repo, file, key)
                    break
                except Undecided:
                    continue
            if found is None:
                # the type's methods may be generated by a macro (`impl $policy { .. }`): look next to the unit's own functions of
                # that type, with the same macro and metavariable substitution
                for fname, meta in list(asm.fns.items()):
                    kw = meta.get("kw") or {}
                    if not kw.get("macro") or fname.split("::")[0] != tname or "::" not in meta.get("item", ""):
                        continue
                    item = meta["item"].rsplit("::", 1)[0] + "::" + meth
                    try:
                        sub = dict(x.split(":") for x in kw["subst"].split(",")) if "subst" in kw else None
                        found = find_fn(repo, meta["file"], item, macro=kw["macro"], subst=sub)
                        file = meta["file"]
                        hkw = dict((k, v) for k, v in kw.items() if k in ("macro", "subst"))
                        hitem = item
                        break
                    except Undecided:
                        continue
            if found is not None and found.trait is None:
                header = _impl_header(asm, tname)
                if header is None:
                    continue
                params = [re.sub(r"\s+", " ", x.strip()) for x in found.sig_parts["params"]]
                pure_recv = bool(params) and params[0] in ("&self", "& self", "self")
                no_mut = not any("&mut" in x.replace(" ", "") for x in params[1:])
                expr = _single_expr(found.body) if (pure_recv and no_mut and found.sig_parts["ret"]) else None
                st["helpers"][key] = dict(file=file, item=hitem, kw=hkw, header=header, opaque=expr is None, expr=expr, method=meth)
                st["order"].append(key)
                asm.rule_hits["RH"] = asm.rule_hits.get("RH", 0) + 1
                asm.notes.append("RH: adopted helper %s from %s:%d (%s)" % (key, file, found.line, "opaque" if expr is None else "postcondition derived from its one-expression body"))
                rebuild = True
                continue
            # R5d: Deref target
            fld = None
            for file in _files(asm):
                try:
                    d = find_fn(repo, file, "%s::deref" % tname, trait="Deref")
                except Undecided:
                    continue
                mm = re.match(r"^&\s*self\s*\.\s*(\w+)$", d.body.strip())
                if mm:
                    fld = mm.group(1)
                break
            if fld and prim:
                sp = prim[0]
                row, col = sp.get("line_start", 1) - 1, sp.get("column_start", 1) - 1
                line = asm.lines[row]
                if line[col:col + len(meth)] == meth and line[:col].rstrip().endswith("."):
                    asm.lines[row] = line[:col] + fld + "." + line[col:]
                    asm.rule_hits["R5d"] = asm.rule_hits.get("R5d", 0) + 1
                    st["deref"] += 1
                    asm.notes.append("R5d: `.%s(` on newtype %s resolved through its Deref target field `%s` at unit line %d" % (meth, tname, fld, row + 1))
                    changed = True
        elif m2:
            fname = m2.group(1)
            if fname in st["helpers"]:
                continue
            for file in _files(asm):
                try:
                    found = find_fn(repo, file, fname)
                except Undecided:
                    continue
                params = [re.sub(r"\s+", " ", x.strip()) for x in found.sig_parts["params"]]
                no_mut = not any("&mut" in x.replace(" ", "") for x in params)
                expr = _single_expr(found.body) if (no_mut and found.sig_parts["ret"]) else None
                st["helpers"][fname] = dict(file=file, item=fname, header=None, opaque=expr is None, expr=expr, method=fname)
                st["order"].append(fname)
                asm.rule_hits["RH"] = asm.rule_hits.get("RH", 0) + 1
                asm.notes.append("RH: adopted free helper %s from %s:%d (%s)" % (fname, file, found.line, "opaque" if expr is None else "postcondition derived"))
                rebuild = True
                break
    if rebuild:
        _rebuild(asm, repo)
        changed = True
    return changed


def callers_of_opaque(asm):
    """names of unit functions whose emitted body calls an opaque adopted helper"""
    opaque = [v["method"] for v in asm.fns.values() if v.get("auto") and v.get("opaque")]
    if not opaque:
        return set()
    rx = re.compile(r"\b(%s)\s*\(" % "|".join(re.escape(m) for m in opaque))
    out = set()
    for k, ln in enumerate(asm.lines):
        o = asm.origin[k]
        if o.fn and o.kind == "body" and rx.search(ln) and not asm.fns.get(o.fn, {}).get("auto"):
            out.add(o.fn)
    return out
