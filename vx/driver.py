"""./check <property> [--tier quick|thorough] [--replay <file>]

exit 0  every obligation tagged with the property was discharged on /repo's current tree
exit 1  + "VIOLATION property=<id> replay=<path>"   an obligation failed for a semantic reason
exit 2  undecided (lost anchor, unsupported construct, resource limit, tool failure) — never an alarm
"""
import concurrent.futures as cf
import json
import os
import re
import shutil
import sys
import tempfile
import time

from . import registry
from . import adopt
from . import verus
from .extract import Undecided
from .unit import assemble

ROOT = os.path.dirname(os.path.dirname(os.path.abspath(__file__)))


def OUT():
    """where evidence/ and replays/ are written: /verif, or a scratch directory for the self-test runs of the thorough tier"""
    return os.environ.get("VERIF_OUT") or ROOT

TRUST_PAT = re.compile(r"\b(assume\s*\(|admit\s*\(|external_body|assume_specification|axiom\b|external_type_specification|exec_allows_no_decreases_clause|uninterp\b|external\b)")


def load_known():
    p = os.path.join(ROOT, "known_findings.json")
    if not os.path.exists(p):
        return []
    with open(p) as f:
        return json.load(f).get("findings", [])


def trusted_scan(asm):
    out = []
    for k, ln in enumerate(asm.lines):
        if ln.strip().startswith("//"):
            continue
        m = TRUST_PAT.search(ln)
        if m:
            # give the item the marker belongs to (next fn/struct/spec line)
            ctx = ln.strip()
            if ctx.startswith("#["):
                for j in range(k + 1, min(k + 4, len(asm.lines))):
                    if re.search(r"\b(fn|struct|enum)\b", asm.lines[j]):
                        ctx += " " + asm.lines[j].strip()
                        break
            out.append(ctx[:160])
    return out


def run_unit(name, repo, work, tier):
    """returns dict with asm, res, canary info, undecided list"""
    cfg = registry.VERUS_UNITS[name]
    tpl = os.path.join(ROOT, cfg["template"])
    out = dict(name=name, undecided=[], failures=[], asm=None, res=None, canary=None)
    try:
        asm = assemble(tpl, repo, ROOT, canary=False)
        casm = assemble(tpl, repo, ROOT, canary=True)
    except Undecided as e:
        out["undecided"].append("%s: %s" % (name, e))
        return out
    out["asm"] = asm
    rlimit = cfg.get("rlimit", 60) * (3 if tier == "thorough" else 1)
    def settle(a, path):
        # rules RH / R5d: name-resolution errors about real helper methods the unit does not contain yet are answered by
        # adopting those helpers from the sources (vx/adopt.py) and running again
        r = verus.run(a, path, rlimit)
        for _ in range(4):
            if not r.rejections:
                break
            try:
                if not adopt.adopt(a, r, repo):
                    break
            except Undecided as e:
                r.undecided.append("helper adoption failed: %s" % e)
                break
            r = verus.run(a, path, rlimit)
        return r

    with cf.ThreadPoolExecutor(max_workers=2) as ex:
        f1 = ex.submit(settle, asm, os.path.join(work, name, "unit.rs"))
        f2 = ex.submit(settle, casm, os.path.join(work, name + "_canary", "unit.rs"))
        res, cres = f1.result(), f2.result()
    out["res"] = res
    out["undecided"] += ["%s: %s" % (name, u) for u in res.undecided]
    weak = adopt.callers_of_opaque(asm)
    for f in res.failures:
        if asm.fns.get(f.fn, {}).get("auto"):
            out["undecided"].append("%s: obligation inside adopted helper %s not discharged (%s) — helpers carry derived contracts only, not a verdict" % (name, f.fn, f.message))
        elif asm.fns.get(f.fn, {}).get("bare_loops"):
            # the body contains a loop the contract carries no invariant for (the function was rewritten with a new loop): nothing
            # after such a loop is provable whatever the code does, so the failure says nothing about the property
            out["undecided"].append("%s: %s/%s not discharged, but the body now contains a loop (#%s) for which the contract has no invariant (%s) — not a verdict" % (
                name, f.fn, f.label, ",".join(map(str, asm.fns[f.fn]["bare_loops"])), f.message))
        elif f.fn in weak:
            out["undecided"].append("%s: %s/%s not discharged, but the function calls an adopted helper without contract (%s) — not a verdict" % (
                name, f.fn, f.label, f.message))
        else:
            out["failures"].append(f)
    # vacuity guard: every canary copy (`ensures false`) must be rejected
    rejected = set(f.fn for f in cres.failures if f.label and f.label.endswith("CANARY"))
    missing = [c for c in casm.canaries if c not in rejected]
    out["canary"] = dict(total=len(casm.canaries), rejected=len(casm.canaries) - len(missing), missing=missing,
                         wall_s=cres.wall_s)
    if missing and not cres.undecided:
        out["undecided"].append("%s: vacuity guard: `ensures false` was accepted for %s (contradictory preconditions or prelude)" % (name, ", ".join(missing)))
    if cres.undecided and not res.undecided:
        out["undecided"].append("%s: canary run undecided: %s" % (name, cres.undecided[0]))
    # obligation-count guard
    base_p = os.path.join(ROOT, "baseline", name + ".json")
    obl = asm.obligations()
    if os.path.exists(base_p):
        with open(base_p) as f:
            base = json.load(f)
        strip = lambda s: s.split("/", 1)[0] + "/" + s.split("/", 1)[1].split(":", 1)[-1]
        want = set(strip(x) for x in base["obligations"])
        have = set(strip("%s/%s" % (o[0], o[1])) for o in obl)
        lost = sorted(want - have)
        if lost:
            out["undecided"].append("%s: obligations present in the committed baseline were not generated: %s" % (name, ", ".join(lost[:5])))
    return out


def serves(props, pid):
    """does a clause tagged `props` serve property pid (directly, or through registry.IMPLIES)?"""
    return pid in props or any(pid in registry.IMPLIES.get(t, ()) for t in props)


def relevant(f, pid):
    return serves(f.props, pid) or (f.label == "safety" and pid in registry.SAFETY_SERVES)


# names std collections also use: a textual `.insert(` says nothing about which `insert` is meant
_COMMON = set("new default insert remove get get_mut clear len is_empty push pop contains contains_key iter iter_mut update add "
              "increment reset close clone drop from into cost".split())


def caller_props(asm):
    """fn name -> properties of every unit function that (transitively) calls it.  Verification is modular: the proof of a
    caller only knows the callee's contract, so a callee whose contract no longer holds invalidates every caller's proof.
    Calls are recognised textually in the emitted bodies (`.name(` / `::name(`); names shared with std collections count
    only in the qualified form `Type::name(`."""
    short = {}
    for name in asm.fns:
        if asm.fns[name].get("auto"):
            continue
        short.setdefault(name.split("::")[-1].split("#")[0], []).append(name)
    bodies = {}
    for k, ln in enumerate(asm.lines):
        o = asm.origin[k]
        if o.fn and o.kind == "body" and o.fn in asm.fns:
            bodies.setdefault(o.fn, []).append(ln)
    # declared field types of the unit's structs (`pub em: ExpirationMap<ES>`): resolves `self.em.try_insert(` to its owner
    ftypes = {}
    for ln in asm.lines:
        for m in re.finditer(r"\bpub\s+(\w+)\s*:\s*(?:&\s*(?:'\w+\s+)?(?:mut\s+)?)?\[?\s*(?:(?:Arc|Box|Option|Ghost|Tracked|Vec)\s*<\s*)*\[?\s*(\w+)", ln):
            ftypes.setdefault(m.group(1), set()).add(m.group(2))
    calls = {f: set() for f in asm.fns}
    for f, lines in bodies.items():
        text = "\n".join(lines)
        fowner = f.split("::")[0] if "::" in f else None
        for s, targets in short.items():
            for g in targets:
                if g == f:
                    continue
                owner = g.split("::")[0] if "::" in g else None
                hit = False
                if owner and re.search(r"\b%s\s*::\s*%s\s*\(" % (re.escape(owner), re.escape(s)), text):
                    hit = True
                elif owner and any(owner in ftypes.get(m.group(1), ()) for m in re.finditer(r"\.\s*(\w+)\s*(?:\[[^\]]*\]\s*)?\.\s*%s\s*\(" % re.escape(s), text)):
                    hit = True
                elif owner and owner == fowner and re.search(r"\b(self|vx_self|Self)\s*(\.|::)\s*%s\s*\(" % re.escape(s), text):
                    hit = True
                elif s not in _COMMON and len(targets) == 1:
                    for m in re.finditer(r"(?:\.\s*(\w+)\s*)?(\.|::|\b)%s\s*\(" % re.escape(s), text):
                        fld = m.group(1)
                        if fld and fld in ftypes and owner and owner not in ftypes[fld]:
                            continue    # `x.<field>.name(` where the field is declared with another type
                        hit = True
                        break
                if hit:
                    calls[f].add(g)
    out = {g: set() for g in asm.fns}
    for f in asm.fns:
        seen, todo = set(), [f]
        while todo:
            x = todo.pop()
            for g in calls.get(x, ()):
                if g not in seen:
                    seen.add(g)
                    todo.append(g)
        for g in seen:
            out[g] |= set(asm.fns[f]["props"])
            out[g].add("via:" + f)
    return out


def units_fn_props(units, uname, fn):
    for u in units:
        if u["name"] == uname and u["asm"] is not None:
            return u["asm"].fns.get(fn, {}).get("props", ())
    return ()


def main(argv=None):
    argv = list(sys.argv[1:] if argv is None else argv)
    if not argv:
        print(__doc__)
        return 2
    pid = argv[0]
    tier = os.environ.get("VERIF_TIER", "quick")
    replay = None
    i = 1
    while i < len(argv):
        if argv[i] == "--tier":
            tier = argv[i + 1]
            i += 2
        elif argv[i] == "--replay":
            replay = argv[i + 1]
            i += 2
        elif argv[i] == "--write-baseline":
            os.environ["VX_WRITE_BASELINE"] = "1"
            i += 1
        else:
            i += 1
    if tier not in ("quick", "thorough"):
        tier = "quick"
    try:
        seed = int(os.environ.get("VERIF_SEED", "0"))
    except ValueError:
        seed = 0
    repo = os.environ.get("VERIF_REPO", "/repo")
    if pid not in registry.PROPS:
        print("property %s is not claimed (see MANIFEST.json not_applicable)" % pid)
        return 2
    if replay:
        from . import replay as rp
        return rp.rerun(pid, replay, repo)
    cfg = registry.PROPS[pid]
    t0 = time.time()
    work = tempfile.mkdtemp(prefix="vx-%s-" % pid)
    try:
        return _run(pid, cfg, tier, seed, repo, work, t0)
    finally:
        shutil.rmtree(work, ignore_errors=True)


def _run(pid, cfg, tier, seed, repo, work, t0):
    undecided, failures = [], []
    units = []
    kres = []
    with cf.ThreadPoolExecutor(max_workers=8) as ex:
        futs = [ex.submit(run_unit, u, repo, work, tier) for u in cfg.get("units", [])]
        kfut = None
        if cfg.get("kani"):
            from . import kani
            kfut = ex.submit(kani.run_groups, cfg["kani"], pid, repo, work, tier)
        for f in futs:
            units.append(f.result())
        if kfut:
            kres = kfut.result()
    for u in units:
        undecided += u["undecided"]
        failures += [(u["name"], f) for f in u["failures"]]
    for k in kres:
        undecided += k["undecided"]

    # ---- obligations relevant to this property -------------------------------------------------------
    obligations, samples, fns, trusted, rule_hits = [], [], [], [], {}
    solver_ms, checker_cmds = 0, []
    canaries = dict(total=0, rejected=0)
    for u in units:
        asm, res = u["asm"], u["res"]
        if asm is None:
            continue
        for (fn, label, props, kind, text) in asm.obligations():
            if serves(props, pid) or (kind == "invariant" and serves(asm.fns.get(fn, {}).get("props", ()), pid)) or (kind == "safety" and pid in registry.SAFETY_SERVES):
                obligations.append(dict(unit=u["name"], function=fn, obligation=label, kind=kind, clause=text, backend="verus/z3"))
        for fn, meta in asm.fns.items():
            if pid in meta["props"] or pid in registry.SAFETY_SERVES:
                fns.append("%s (%s:%d)" % (fn, meta["file"], meta["line"]))
        for k, v in asm.rule_hits.items():
            rule_hits[k] = rule_hits.get(k, 0) + v
        trusted += ["%s: %s" % (u["name"], t) for t in trusted_scan(asm)]
        if res:
            solver_ms += res.smt_ms
            checker_cmds.append(re.sub(r"/tmp/vx-[^/]*/", "$WORK/", res.cmd))
        if u["canary"]:
            canaries["total"] += u["canary"]["total"]
            canaries["rejected"] += u["canary"]["rejected"]
    n_lemmas = sum(u["asm"].proof_fns for u in units if u["asm"] is not None)
    for k in kres:
        for h in k["harnesses"]:
            if serves(h["props"], pid):
                obligations.append(dict(unit=k["group"], function=h["target"], obligation=h["name"], kind="kani-harness",
                                        clause=h["claim"], backend="kani/cbmc", checks=h.get("checks", 0), bounded=h.get("bounded", False)))
        fns += k.get("functions", [])
        checker_cmds += k.get("cmds", [])
        solver_ms += k.get("solver_ms", 0)
        trusted += k.get("trusted", [])

    mine = [(u, f) for (u, f) in failures if relevant(f, pid)]
    # a failed clause of a callee invalidates the proofs of its callers: the failure also counts for the callers' properties
    cprops = {u["name"]: caller_props(u["asm"]) for u in units if u["asm"] is not None}
    for (u, f) in failures:
        if relevant(f, pid) or f.fn == "<template>":
            continue
        cp = cprops.get(u, {}).get(f.fn, set())
        if pid in cp:
            via = sorted(x[4:] for x in cp if x.startswith("via:") and pid in units_fn_props(units, u, x[4:]))
            f.message += " [counts for %s through its caller(s) %s, whose proofs assume this contract]" % (pid, ", ".join(via[:3]))
            f.props = tuple(f.props) + (pid,)
            mine.append((u, f))
            if not any(o["function"] == f.fn and o["obligation"] == f.label for o in obligations):
                obligations.append(dict(unit=u, function=f.fn, obligation=f.label, kind="callee-contract", clause=f.clause_text, backend="verus/z3"))
    tmpl = [(u, f) for (u, f) in failures if f.fn == "<template>"]
    for (u, f) in tmpl:
        undecided.append("%s: a hand-written lemma/glue obligation failed (%s at %s) — machinery problem, not a verdict" % (u, f.message, f.where))
    kfails = []
    for k in kres:
        for h in k["harnesses"]:
            if serves(h["props"], pid) and h["status"] == "FAILED":
                kfails.append((k, h))

    # second opinion (registry.SECOND_OPINION): a Verus failure in a function whose complete Kani twin passes is not a violation
    second = []
    kept = []
    for (u, f) in mine:
        so = registry.SECOND_OPINION.get(f.fn)
        if so:
            grp, names = so
            hs = [h for k in kres if k["group"] == grp for h in k["harnesses"] if h["name"] in names]
            if len(hs) == len(names) and all(h["status"] == "SUCCESSFUL" for h in hs):
                second.append("%s: %s/%s not re-proved by Verus (%s) but decided by the complete Kani harness(es) %s, which pass on this tree" % (
                    u, f.fn, f.label, f.message.split(" [")[0], ", ".join(names)))
                continue
        kept.append((u, f))
    mine = kept

    known = [k for k in load_known() if k.get("property") == pid and k.get("status") == "open"]
    violations, known_hit = [], []
    seen_keys = set()
    for (u, f) in mine:
        key = "%s:%s/%s" % (u, f.fn, f.label)
        if key in seen_keys:
            continue
        seen_keys.add(key)
        kf = [k for k in known if k.get("obligation") == key]
        if kf:
            known_hit.append((kf[0], f))
        else:
            violations.append(("verus", u, f))
    for (k, h) in kfails:
        key = "%s:%s" % (k["group"], h["name"])
        kf = [x for x in known if x.get("obligation") == key]
        if kf:
            known_hit.append((kf[0], h))
        else:
            violations.append(("kani", k, h))

    failing_keys = set()
    for kind, u, f in violations:
        failing_keys.add((u if kind == "verus" else u["group"], f.fn if kind == "verus" else f["target"], f.label if kind == "verus" else f["name"]))
    for kfd, f in known_hit:
        if isinstance(f, dict):
            failing_keys.add((None, f["target"], f["name"]))
        else:
            failing_keys.add((None, f.fn, f.label))
    n_failed = 0
    for o in obligations:
        if any((fk[1] == o["function"] and fk[2] == o["obligation"]) for fk in failing_keys):
            o["status"] = "FAILED"
            n_failed += 1
        else:
            o["status"] = "discharged"

    mut = None
    seeded = None
    if tier == "thorough":
        from . import mutants
        mut = mutants.run(pid, repo, work)
        seeded = None
        if not os.environ.get("VERIF_OUT"):      # (not inside a self-test run)
            seeded = mutants.run_seeded(pid, repo, work)
    wall = time.time() - t0
    ev = dict(
        property_id=pid, tier=tier, seed=seed, level="proof",
        coverage=dict(
            obligations=len(obligations) + n_lemmas,
            discharged=len(obligations) + n_lemmas - n_failed,
            checker_cmd="; ".join(checker_cmds) or "none",
            trusted_base=sorted(set(trusted)),
            functions_under_contract=sorted(set(fns)),
            supporting_lemmas=n_lemmas,
            solver_ms=solver_ms,
            rewrite_rule_hits=rule_hits,
            vacuity_canaries=canaries,
            kani=[dict(group=k["group"], harnesses=[{kk: vv for kk, vv in h.items() if kk != "output"} for h in k["harnesses"] if serves(h["props"], pid)]) for k in kres],
            samples=[o for o in obligations][:400],
            undecided=undecided,
            extraction_notes=["%s: %s" % (u["name"], n) for u in units if u["asm"] is not None for n in u["asm"].notes],
            detection_selftest=mut if mut is not None else "thorough tier only",
            second_opinions=second,
            seeded_selftest=(seeded if tier == "thorough" else "thorough tier only"),
            exhaustive=False,
            explanation="obligations = labelled contract clauses (postconditions, loop invariants) of the real functions listed, one safety obligation per function (overflow, bounds, callee preconditions, asserts), Kani harnesses, and the supporting lemmas; discharged by the back end named per obligation on /repo's current working tree",
        ),
        assumptions=[registry.ASSUMPTIONS[a] for a in cfg.get("assumptions", sorted(registry.ASSUMPTIONS))],
        wall_s=round(wall, 2),
        violations=len(violations),
    )

    rc = 0
    lines = []
    if violations:
        from . import replay as rp
        for n, (kind, u, f) in enumerate(violations):
            path = rp.write_violation(pid, n, kind, u, f, repo, work, seed, cfg)
            suffix = "" if path[1] else " no-failing-input-found"
            lines.append("VIOLATION property=%s replay=%s%s" % (pid, path[0], suffix))
        rc = 1
    for kfd, f in known_hit:
        lines.append("KNOWN-FINDING: property=%s %s" % (pid, kfd.get("what", kfd.get("obligation"))))
    # thorough tier: seeded sweeps of the executable oracles on the real crate (exploration on top of the proofs; a concrete
    # failing input on this tree is a violation, the sweep itself is never counted as proof)
    if tier == "thorough" and cfg.get("replay"):
        from . import replay as rp
        known_open = [k for k in load_known() if k.get("status") == "open"]
        sweep = dict(groups=cfg["replay"], seeds=[], failures=0, note="sampling; not proof")
        for s_ in (seed, seed + 1, seed + 2):
            fails, out = rp.run_oracles(cfg["replay"], repo, work, s_)
            sweep["seeds"].append(s_)
            for x in fails:
                if not serves(x.get("props", []), pid):
                    continue
                key = "oracle:%s" % x.get("clause")
                if any(k.get("obligation") == key for k in known_open):
                    continue
                sweep["failures"] += 1
                os.makedirs(os.path.join(OUT(), "replays"), exist_ok=True)
                path = os.path.join(OUT(), "replays", "%s-sweep.json" % pid)
                with open(path, "w") as fo:
                    json.dump(dict(property=pid, lane="oracle sweep (thorough tier)", seed=s_, tree=repo, failed_obligation=key, counterexample=x,
                                   replay=dict(kind="oracle-test", groups=cfg["replay"], test=x.get("test"), seed=s_)), fo, indent=1)
                if not any(l.endswith(path) for l in lines):
                    lines.append("VIOLATION property=%s replay=%s" % (pid, path))
                    ev["violations"] = ev.get("violations", 0) + 1
                rc = 1
        ev["coverage"]["oracle_sweep"] = sweep
    # probes: oracles for recorded schedule-dependent findings that no contract can express; they run on every check of
    # the property so that the finding is re-observed (KNOWN-FINDING) or, if it shows a different failure, reported
    if cfg.get("probes") or cfg.get("guards"):
        from . import replay as rp
        known_open = [k for k in load_known() if k.get("property") == pid and k.get("status") == "open"]
        probe_log = []
        # one build + run for all probes and guards of the property (VERIF_ONLY takes a comma list)
        pg = list(cfg.get("probes", [])) + list(cfg.get("guards", []))
        grps = []
        for g, _ in pg:
            if g not in grps:
                grps.append(g)
        fails_all, out = rp.run_oracles(grps, repo, work, seed, only=",".join(tst for _, tst in pg))
        if out.startswith("ORACLE-BUILD-FAILED"):
            undecided.append("probes/guards: the executable oracles do not build against this tree: " + " ".join(re.findall(r"error(?:\[E\d+\])?: [^\n]*", out)[:2])[:300])
        for grp, test in pg:
            fails = [x for x in fails_all if x.get("test") == test]
            for x in fails:
                if not serves(x.get("props", []), pid):
                    continue
                key = "oracle:%s" % x.get("clause")
                kf = [k for k in known_open if k.get("obligation") == key]
                probe_log.append(dict(probe=test, clause=x.get("clause"), input=x.get("input"), observed=x.get("observed"), known=bool(kf)))
                if kf:
                    if not any(l.startswith("KNOWN-FINDING") and kf[0].get("what", "")[:40] in l for l in lines):
                        lines.append("KNOWN-FINDING: property=%s %s" % (pid, kf[0].get("what", key)))
                else:
                    os.makedirs(os.path.join(OUT(), "replays"), exist_ok=True)
                    path = os.path.join(OUT(), "replays", "%s-probe-%s.json" % (pid, test))
                    with open(path, "w") as fo:
                        json.dump(dict(property=pid, lane="oracle probe", seed=seed, tree=repo, failed_obligation=key, counterexample=x,
                                       replay=dict(kind="oracle-test", groups=[grp], test=test, seed=seed)), fo, indent=1)
                    lines.append("VIOLATION property=%s replay=%s" % (pid, path))
                    ev["violations"] = ev.get("violations", 0) + 1
                    rc = 1
        ev["coverage"]["finding_probes"] = probe_log
        if cfg.get("guards"):
            ev["coverage"]["bounded_guards"] = dict(tests=["%s::%s" % g for g in cfg["guards"]],
                                                    note="bounded stand-in for code outside the verifier's reach (processor spawn loop, ticker, channels): a fixed list of edge configurations and one scripted workload each, run on the real crate on every check; labelled bounded, never counted as proved")
    if undecided and rc == 0 and cfg.get("replay"):
        # The deductive lane could not bring (part of) the code in front of the verifier.  Bounded stand-in: run the
        # executable oracles of the same contracts on the real crate; a concrete failing input is a violation (never
        # a false alarm), its absence leaves the verdict undecided.  Labelled bounded, never counted as proved.
        from . import replay as rp
        fails, out = rp.run_oracles(cfg["replay"], repo, work, seed)
        if out.startswith("ORACLE-BUILD-FAILED"):
            undecided.append("bounded stand-in: the executable oracles do not build against this tree: " + " ".join(re.findall(r"error(?:\[E\d+\])?: [^\n]*", out)[:2])[:300])
        mine = [x for x in fails if serves(x.get("props", []), pid)]
        known_open = [k for k in load_known() if k.get("property") == pid and k.get("status") == "open"]
        ev["coverage"]["bounded_standin"] = dict(reason="verifier undecided: " + "; ".join(undecided)[:400], oracle_groups=cfg["replay"], seed=seed,
                                                 failures=len(mine), note="bounded / sampled, not proof")
        for n, x in enumerate(mine[:3]):
            key = "oracle:%s" % x.get("clause")
            if any(k.get("obligation") == key for k in known_open):
                lines.append("KNOWN-FINDING: property=%s %s" % (pid, key))
                continue
            if any(k.get("obligation") == key and k.get("status") == "open" for k in load_known()):
                continue    # a recorded open finding of another property (its own check reports it)
            os.makedirs(os.path.join(OUT(), "replays"), exist_ok=True)
            path = os.path.join(OUT(), "replays", "%s-%d.json" % (pid, n))
            with open(path, "w") as fo:
                json.dump(dict(property=pid, lane="oracle (bounded stand-in; the verifier was undecided)", seed=seed, tree=repo,
                               failed_obligation="oracle:%s" % x.get("clause"), function=x.get("function"), counterexample=x,
                               undecided=undecided,
                               replay=dict(kind="oracle-test", groups=cfg["replay"], test=x.get("test"), seed=seed)), fo, indent=1)
            lines.append("VIOLATION property=%s replay=%s" % (pid, path))
            ev["violations"] = ev.get("violations", 0) + 1
            rc = 1
    if undecided and rc == 0:
        rc = 2
    if os.environ.get("VX_WRITE_BASELINE") and rc == 0:
        os.makedirs(os.path.join(ROOT, "baseline"), exist_ok=True)
        for u in units:
            with open(os.path.join(ROOT, "baseline", u["name"] + ".json"), "w") as fo:
                json.dump(dict(obligations=sorted("%s/%s" % (o[0], o[1].split(":", 1)[-1]) for o in u["asm"].obligations())), fo, indent=1)
    wall = time.time() - t0
    ev["wall_s"] = round(wall, 2)
    os.makedirs(os.path.join(OUT(), "evidence"), exist_ok=True)
    with open(os.path.join(OUT(), "evidence", pid + ".json"), "w") as fo:
        json.dump(ev, fo, indent=1, default=str)
    for l in lines:
        print(l)
    for s_ in second:
        print("SECOND-OPINION: " + s_)
    for u in undecided:
        print("UNDECIDED: " + u)
    print("%s: %d obligations, %d discharged, %d violations, %d known findings, %d undecided notes, %.1fs [%s]" % (
        pid, ev["coverage"]["obligations"], ev["coverage"]["discharged"], sum(1 for l in lines if l.startswith("VIOLATION")),
        sum(1 for l in lines if l.startswith("KNOWN-FINDING")), len(undecided), wall, tier))
    return rc


if __name__ == "__main__":
    try:
        rc = main()
    except Undecided as e:
        print("UNDECIDED: %s" % e)
        rc = 2
    except Exception as e:  # a broken tool must never look like a verdict
        import traceback
        traceback.print_exc()
        print("UNDECIDED: internal error in the checking machinery: %r" % (e,))
        rc = 2
    sys.exit(rc)
