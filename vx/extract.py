"""Locate real items in /repo sources and cut them out verbatim.

Everything returned here is text taken from the file on disk; the only textual change this module
makes is rule R1 (macro metavariable substitution, the same token substitution rustc performs).
"""
import os

from .rustlex import Src, norm, lex


class Undecided(Exception):
    """The machinery could not bring the code in front of the verifier (lost anchor, unsupported
    construct).  Maps to exit 2 — never a pass, never an alarm."""


class FnItem:
    def __init__(self, file, name, owner, text, sig, body, line, sig_parts):
        self.file = file
        self.name = name
        self.owner = owner          # impl self type (None for free fns)
        self.text = text            # whole fn text
        self.sig = sig              # text before the body brace (attrs/doc stripped)
        self.body = body            # text between the outer braces of the body
        self.line = line            # 1-based line of the `fn` keyword in the original file
        self.body_line = None       # 1-based line where body text starts
        self.sig_parts = sig_parts  # dict: params(list of str), ret(str|None), generics, qualifiers


def _skip_generics(s, p):
    """p at '<' -> position just after matching '>' (handles nested <> and ->)"""
    depth = 0
    while p < len(s):
        t = s.txt(p)
        if t == "<":
            depth += 1
        elif t == ">":
            depth -= 1
            if depth == 0:
                return p + 1
        elif t == ">>":
            depth -= 2
            if depth <= 0:
                return p + 1
        elif s.kind(p) == "open":
            p = s.closer(p)
        p += 1
    raise Undecided("unbalanced generics")


def _impl_blocks(s, lo, hi):
    """yield (type_name, trait_name|None, open_pos, close_pos) for impl blocks whose `impl` keyword is a
    code token in [lo,hi) at any nesting (so impls inside macro bodies are found too)"""
    p = lo
    while p < hi:
        if s.txt(p) == "impl" and s.kind(p) == "ident" and not s.is_(p - 1, "."):
            q = p + 1
            if s.is_(q, "<"):
                q = _skip_generics(s, q)
            # header up to the opening brace
            hdr = []
            r = q
            while r < hi and not (s.kind(r) == "open" and s.txt(r) == "{"):
                if s.kind(r) == "open":
                    r = s.closer(r)
                hdr.append(r)
                r += 1
            if r >= hi:
                break
            words = [s.txt(k) for k in hdr]
            if "where" in words:
                words = words[:words.index("where")]
            trait = None
            if "for" in words:
                k = words.index("for")
                trait = _first_type_name(words[:k])
                words = words[k + 1:]
            name = _first_type_name(words)
            yield name, trait, r, s.closer(r)
            p = q
        else:
            p += 1


def _first_type_name(words):
    """first path's last segment before generics: `crate::a::B<T>` -> B ; `$policy<S>` -> $policy"""
    out, k = None, 0
    while k < len(words):
        w = words[k]
        if w == "$" and k + 1 < len(words):
            out = "$" + words[k + 1]
            k += 2
            continue
        if w in ("<", "where", "{"):
            break
        if w in ("&", "mut", "dyn", "::", "unsafe", "!"):
            k += 1
            continue
        if w[0].isalpha() or w[0] == "_":
            out = w
        k += 1
    return out


def _parse_fn(s, p, hi, file):
    """p at the `fn` keyword; returns FnItem or None if this is a declaration without body"""
    name = s.txt(p + 1)
    # start of signature: walk back over qualifiers
    b = p
    while b - 1 >= 0 and (s.txt(b - 1) in ("pub", "async", "const", "unsafe", "extern") or
                          (s.kind(b - 1) == "close" and s.txt(b - 1) == ")" and s.is_(s.closer(b - 1) - 1, "pub"))):
        if s.kind(b - 1) == "close":
            b = s.closer(b - 1) - 1
        else:
            b -= 1
    q = p + 2
    generics = ""
    if s.is_(q, "<"):
        e = _skip_generics(s, q)
        generics = s.slice(q, e - 1)
        q = e
    if not (s.kind(q) == "open" and s.txt(q) == "("):
        raise Undecided("fn %s: expected parameter list" % name)
    pc = s.closer(q)
    params = _split_top(s, q + 1, pc)
    r = pc + 1
    ret = None
    # find the body brace: first `{` at this level
    k = r
    while k < hi and not (s.kind(k) == "open" and s.txt(k) == "{"):
        if s.txt(k) == ";":
            return None
        if s.kind(k) == "open":
            k = s.closer(k)
        k += 1
    if k >= hi:
        return None
    if s.is_(r, "->"):
        # return type runs to `where` or the brace
        e = r + 1
        while e < k and s.txt(e) != "where":
            e += 1
        ret = s.slice(r + 1, e - 1)
    where = ""
    w = r
    while w < k and s.txt(w) != "where":
        w += 1
    if w < k:
        where = s.slice(w, k - 1)
    kc = s.closer(k)
    text = s.slice(b, kc)
    sig = s.slice(b, k - 1)
    body = s.text[s.end(k):s.start(kc)]
    it = FnItem(file, name, None, text, sig, body, s.line_of(s.start(p)),
                dict(params=params, ret=ret, generics=generics, where=where,
                     quals=s.slice(b, p) if b < p else "fn"))
    it.body_line = s.line_of(s.end(k))
    return it


def _split_top(s, lo, hi):
    """split code positions [lo,hi) at top-level commas; returns list of source strings"""
    out, cur, p = [], None, lo
    depth = 0
    while p < hi:
        t = s.txt(p)
        if s.kind(p) == "open":
            c = s.closer(p)
            if cur is None:
                cur = p
            p = c + 1
            continue
        if t == "<":
            depth += 1
        elif t == ">":
            depth -= 1
        elif t == ">>":
            depth -= 2
        if t == "," and depth == 0:
            if cur is not None:
                out.append(s.slice(cur, p - 1))
            cur = None
        elif cur is None:
            cur = p
        p += 1
    if cur is not None and cur < hi:
        out.append(s.slice(cur, hi - 1))
    return out


def _macro_body(s, macro):
    """code-position range (lo,hi) of the transcriber body of `macro_rules! <macro>`"""
    for p in range(len(s) - 3):
        if s.seq(p, "macro_rules", "!", macro):
            o = p + 3
            if s.kind(o) != "open":
                raise Undecided("macro %s: no body" % macro)
            c = s.closer(o)
            # ( matcher ) => { transcriber }
            q = o + 1
            while q < c and not s.is_(q, "=>"):
                if s.kind(q) == "open":
                    q = s.closer(q)
                q += 1
            t = q + 1
            if t >= c or s.kind(t) != "open":
                raise Undecided("macro %s: no transcriber" % macro)
            return t + 1, s.closer(t)
    raise Undecided("macro_rules! %s not found" % macro)


def substitute(text, subst):
    """R1: replace `$name` by its argument (token-wise, longest names first)"""
    if not subst:
        return text
    toks = lex(text)
    out, k = [], 0
    while k < len(toks):
        t = toks[k]
        if t[1] == "$" and k + 1 < len(toks) and toks[k + 1][0] == "ident" and toks[k + 1][1] in subst:
            out.append(subst[toks[k + 1][1]])
            k += 2
        else:
            out.append(t[1])
            k += 1
    return "".join(out)


_cache = {}


def load(path):
    # keyed by content identity, not only by path: the development tools (tools_mutsweep.py) rewrite the same scratch file many
    # times inside one process
    st = os.stat(path)
    key = (path, st.st_mtime_ns, st.st_size)
    if key not in _cache:
        for k in [k for k in _cache if k[0] == path]:
            del _cache[k]
        with open(path) as f:
            _cache[key] = Src(f.read())
    return _cache[key]


def find_fn(repo, file, item, macro=None, subst=None, nth=None, trait=None):
    """item: `Type::name` or `name` (free fn).  Inside `macro`, Type may be `$var`.
    Returns FnItem with R1 applied to text/sig/body."""
    s = load("%s/%s" % (repo, file))
    lo, hi = (0, len(s))
    if macro:
        lo, hi = _macro_body(s, macro)
    owner, _, name = item.rpartition("::")
    found = []
    if owner:
        for tname, ttrait, o, c in _impl_blocks(s, lo, hi):
            if tname != owner:
                continue
            if trait is not None and ttrait != trait:
                continue
            if trait is None and ttrait is not None and ttrait not in ("Index", "IndexMut", "KeyBuilder", "Hasher", "TransparentKey"):
                # inherent impls are preferred; trait impls only on request
                pass
            p = o + 1
            while p < c:
                if s.kind(p) == "open":
                    p = s.closer(p) + 1
                    continue
                if s.txt(p) == "fn" and s.kind(p) == "ident" and s.txt(p + 1) == name:
                    f = _parse_fn(s, p, c, file)
                    if f:
                        f.owner = owner
                        f.trait = ttrait
                        found.append(f)
                p += 1
        if not found and trait is None:
            # provided (default) methods of a trait definition: `trait Owner { fn name(..) { body } }`
            p = lo
            while p < hi:
                if s.txt(p) == "trait" and s.kind(p) == "ident" and s.txt(p + 1) == owner:
                    r = p + 2
                    while r < hi and not (s.kind(r) == "open" and s.txt(r) == "{"):
                        if s.kind(r) == "open":
                            r = s.closer(r)
                        r += 1
                    if r >= hi:
                        break
                    c = s.closer(r)
                    q = r + 1
                    while q < c:
                        if s.kind(q) == "open":
                            q = s.closer(q) + 1
                            continue
                        if s.txt(q) == "fn" and s.kind(q) == "ident" and s.txt(q + 1) == name:
                            f = _parse_fn(s, q, c, file)
                            if f:
                                f.owner = owner
                                f.trait = None
                                found.append(f)
                        q += 1
                    p = c
                p += 1
    else:
        p = lo
        while p < hi:
            if s.kind(p) == "open":
                p = s.closer(p) + 1
                continue
            if s.txt(p) == "fn" and s.kind(p) == "ident" and s.txt(p + 1) == name:
                f = _parse_fn(s, p, hi, file)
                if f:
                    f.trait = None
                    found.append(f)
            p += 1
    if not found:
        raise Undecided("anchor lost: fn %s not found in %s%s" % (item, file, " (macro %s)" % macro if macro else ""))
    if nth is not None:
        if nth > len(found):
            raise Undecided("anchor lost: %s #%d not found in %s" % (item, nth, file))
        f = found[nth - 1]
    elif len(found) > 1:
        raise Undecided("ambiguous: %d definitions of %s in %s (use nth=)" % (len(found), item, file))
    else:
        f = found[0]
    if subst:
        f.text = substitute(f.text, subst)
        f.sig = substitute(f.sig, subst)
        f.body = substitute(f.body, subst)
        f.sig_parts = dict(f.sig_parts)
        f.sig_parts["params"] = [substitute(x, subst) for x in f.sig_parts["params"]]
        if f.sig_parts["ret"]:
            f.sig_parts["ret"] = substitute(f.sig_parts["ret"], subst)
        if f.owner:
            f.owner = substitute(f.owner, subst)
    return f


def find_struct(repo, file, name, macro=None):
    """returns (text, [(field, type)], line) of `struct name {..}` (named or tuple fields)"""
    s = load("%s/%s" % (repo, file))
    for p in range(len(s) - 1):
        if s.txt(p) == "struct" and s.txt(p + 1) == name:
            q = p + 2
            if s.is_(q, "<"):
                q = _skip_generics(s, q)
            while q < len(s) and s.kind(q) != "open" and s.txt(q) != ";":
                q += 1
            if q >= len(s) or s.txt(q) == ";":
                return s.slice(p, q), [], s.line_of(s.start(p))
            c = s.closer(q)
            fields = []
            for part in _split_top(s, q + 1, c):
                ps = Src(part)
                # drop attributes and visibility
                k = 0
                while k < len(ps):
                    if ps.txt(k) == "#":
                        k = ps.closer(k + 1) + 1
                    elif ps.txt(k) == "pub":
                        k += 1
                        if k < len(ps) and ps.kind(k) == "open":
                            k = ps.closer(k) + 1
                    else:
                        break
                rest = ps.slice(k, len(ps) - 1) if k < len(ps) else ""
                if s.txt(q) == "(":
                    fields.append((str(len(fields)), norm(rest)))
                else:
                    fname, _, ftype = rest.partition(":")
                    fields.append((fname.strip(), norm(ftype)))
            return s.slice(p, c), fields, s.line_of(s.start(p))
    raise Undecided("anchor lost: struct %s not found in %s" % (name, file))


def find_const(repo, file, name, keyword="const"):
    s = load("%s/%s" % (repo, file))
    for p in range(len(s) - 1):
        if s.txt(p) == keyword and s.txt(p + 1) == name:
            q = p
            while s.txt(q) != ";":
                if s.kind(q) == "open":
                    q = s.closer(q)
                q += 1
            return s.slice(p, q), s.line_of(s.start(p))
    raise Undecided("anchor lost: const %s not found in %s" % (name, file))


def find_enum(repo, file, name):
    s = load("%s/%s" % (repo, file))
    for p in range(len(s) - 1):
        if s.txt(p) == "enum" and s.txt(p + 1) == name:
            q = p + 2
            if s.is_(q, "<"):
                q = _skip_generics(s, q)
            while s.kind(q) != "open":
                q += 1
            c = s.closer(q)
            import re as _re
            variants = [_re.sub(r"^(# \[ [^\]]* \] )+", "", norm(v)) for v in _split_top(s, q + 1, c)]
            return s.slice(p, c), variants, s.line_of(s.start(p))
    raise Undecided("anchor lost: enum %s not found in %s" % (name, file))
