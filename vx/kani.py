"""Lane K: Kani harnesses compiled into a scratch copy of the real crate (child modules appended to the
module files, so private items are reachable and no existing line changes)."""
import os
import re
import shutil
import subprocess
import time

from . import registry
from .replay import scratch_copy, append_module, cargo_env, ROOT

HARNESS_RE = re.compile(r"^Checking harness ([A-Za-z0-9_:]+)\.\.\.", re.M)


def parse_meta(path):
    """harness metadata lives in comments of the harness file:
       //@harness <fn> props=C14,C20 target=Bloom::set bounded=no claim=<text>"""
    metas = {}
    with open(path) as f:
        for ln in f:
            m = re.match(r"^\s*//@harness\s+(\w+)\s+props=([A-Z0-9,]+)\s+target=(\S+)\s+bounded=(\w+)\s+claim=(.*)$", ln)
            if m:
                metas[m.group(1)] = dict(name=m.group(1), props=m.group(2).split(","), target=m.group(3),
                                         bounded=(m.group(4) != "no"), bound_note=(m.group(4) if m.group(4) not in ("no", "yes") else ""),
                                         claim=m.group(5).strip())
    return metas


def run_groups(groups, pid, repo, work, tier, only=None):
    results = []
    scratch = scratch_copy(repo, work, "kani")
    # Kani writes its per-harness artefacts under the (shared, cached) target directory by harness name: two checks running at
    # the same time would read each other's results.  One Kani run at a time per machine.
    import fcntl
    os.makedirs(os.path.join(ROOT, ".cache"), exist_ok=True)
    lock = open(os.path.join(ROOT, ".cache", "kani.lock"), "w")
    fcntl.flock(lock, fcntl.LOCK_EX)
    try:
        for g in groups:
            cfg = registry.KANI_GROUPS[g]
            append_module(scratch, cfg["file"], "verif_kani_" + g, os.path.join(ROOT, cfg["include"]), "kani")
        for g in groups:
            results.append(_run_group(g, pid, scratch, tier, only))
    finally:
        shutil.rmtree(scratch, ignore_errors=True)
        fcntl.flock(lock, fcntl.LOCK_UN)
        lock.close()
    return results


def _run_group(g, pid, scratch, tier, only):
    cfg = registry.KANI_GROUPS[g]
    metas = parse_meta(os.path.join(ROOT, cfg["include"]))
    names = [n for n, m in metas.items() if pid is None or pid in m["props"] or any(pid in registry.IMPLIES.get(t, ()) for t in m["props"])]
    if only:
        names = [n for n in names if n == only]
    if tier != "thorough":
        names = [n for n in names if not n.endswith("_thorough")]
    res = dict(group=g, harnesses=[], undecided=[], cmds=[], functions=[], trusted=list(cfg.get("trusted", [])), solver_ms=0)
    if not names:
        return res
    env = cargo_env("target-kani")
    cmd = ["cargo", "kani", "--output-format", "terse", "-Z", "function-contracts", "-Z", "stubbing"] + list(cfg.get("args", []))
    for n in names:
        cmd += ["--harness", n]
    res["cmds"].append("(scratch copy of /repo with `#[cfg(kani)] mod verif_kani_%s { include!(\"kani/%s\") }` appended to %s) %s" % (
        g, os.path.basename(cfg["include"]), cfg["file"], " ".join(cmd)))
    t0 = time.time()
    try:
        p = subprocess.run(cmd, cwd=scratch, env=env, capture_output=True, text=True, timeout=cfg.get("timeout", 1500))
        out = p.stdout + "\n" + p.stderr
    except subprocess.TimeoutExpired as e:
        res["undecided"].append("kani group %s timed out" % g)
        out = (e.stdout or b"").decode() if isinstance(e.stdout, bytes) else (e.stdout or "")
    wall = time.time() - t0
    # split output per harness
    parts = HARNESS_RE.split(out)
    seen = {}
    for k in range(1, len(parts), 2):
        hname = parts[k].split("::")[-1]
        seen[hname] = parts[k + 1]
    if not seen and "error" in out:
        res["undecided"].append("kani group %s did not build: %s" % (g, out[-800:]))
    for n in names:
        m = dict(metas[n])
        body = seen.get(n)
        if body is None:
            m["status"] = "UNDECIDED"
            res["undecided"].append("kani harness %s produced no result" % n)
        else:
            ok = "VERIFICATION:- SUCCESSFUL" in body
            failed = "VERIFICATION:- FAILED" in body
            mt = re.search(r"Verification Time: ([0-9.]+)s", body)
            m["time_s"] = float(mt.group(1)) if mt else None
            if mt:
                res["solver_ms"] += int(float(mt.group(1)) * 1000)
            mc = re.search(r"\*\* (\d+) of (\d+) failed", body)
            m["checks"] = int(mc.group(2)) if mc else 0
            m["checks_failed"] = int(mc.group(1)) if mc else 0
            fl = re.findall(r"^Failed Checks: (.*)$", body, re.M)
            m["failed_checks"] = fl[:10]
            if "unwinding assertion" in " ".join(fl) and all("unwinding" in x for x in fl):
                m["status"] = "UNDECIDED"
                res["undecided"].append("kani harness %s: unwinding bound too small" % n)
            elif failed:
                m["status"] = "FAILED"
                m["output"] = body[-5000:]
            elif ok:
                m["status"] = "SUCCESSFUL"
            else:
                m["status"] = "UNDECIDED"
                res["undecided"].append("kani harness %s: no verdict (%s)" % (n, body[-300:].replace("\n", " ")))
        res["harnesses"].append(m)
        res["functions"].append("%s (%s; Kani harness %s)" % (m["target"], cfg["file"], n))
    res["wall_s"] = wall
    # failed harnesses: ask Kani for concrete values
    failed = [h for h in res["harnesses"] if h["status"] == "FAILED"]
    if failed:
        cmd2 = ["cargo", "kani", "--output-format", "terse", "-Z", "function-contracts", "-Z", "stubbing", "-Z", "concrete-playback",
                "--concrete-playback=print"] + list(cfg.get("args", []))
        for h in failed:
            cmd2 += ["--harness", h["name"]]
        try:
            p = subprocess.run(cmd2, cwd=scratch, env=env, capture_output=True, text=True, timeout=cfg.get("timeout", 1500))
            o2 = p.stdout + "\n" + p.stderr
            parts = HARNESS_RE.split(o2)
            for k in range(1, len(parts), 2):
                hname = parts[k].split("::")[-1]
                blocks = re.findall(r"```\s*\n(.*?)```", parts[k + 1], re.S)
                pick = [b for b in blocks if "Check for `cover`" not in b] or blocks
                for h in failed:
                    if h["name"] == hname and pick:
                        h["counterexample"] = dict(kani_concrete_playback=pick[0][:4000])
        except subprocess.TimeoutExpired:
            pass
    return res
