"""Detection self-test (thorough tier): every mutant of the committed catalogue that targets the property must turn
the property's Verus obligations red.  A survivor is a weakness of the contracts, not of /repo; it is reported in the
evidence and does not change the exit code."""
import concurrent.futures as cf
import json
import os
import shutil
import subprocess

from . import registry, verus
from .extract import Undecided
from .unit import assemble

ROOT = os.path.dirname(os.path.dirname(os.path.abspath(__file__)))


def _one(m, pid, repo, work):
    dst = os.path.join(work, "mut-" + m["id"])
    os.makedirs(dst, exist_ok=True)
    subprocess.run(["rsync", "-a", os.path.join(repo, "src"), dst + "/"], check=True)
    p = os.path.join(dst, m["file"])
    with open(p) as f:
        s = f.read()
    if m["frm"] not in s:
        shutil.rmtree(dst, ignore_errors=True)
        return dict(id=m["id"], status="not-applicable (pattern absent on this tree)")
    with open(p, "w") as f:
        f.write(s.replace(m["frm"], m["to"], 1))
    status, by = "SURVIVED", []
    try:
        for u in m["units"]:
            cfg = registry.VERUS_UNITS[u]
            try:
                asm = assemble(os.path.join(ROOT, cfg["template"]), dst, ROOT)
            except Undecided as e:
                status = "undecided (%s)" % str(e)[:80]
                continue
            res = verus.run(asm, os.path.join(dst, "out", u, "unit.rs"), cfg.get("rlimit", 60), threads=2)
            hit = [f for f in res.failures if pid in f.props or any(pid in registry.IMPLIES.get(x, ()) for x in f.props)]
            if hit:
                status = "killed"
                by = sorted(set("%s/%s" % (f.fn, f.label) for f in hit))[:4]
                break
            if res.failures:
                status = "killed (obligation of another property)"
                by = sorted(set("%s/%s" % (f.fn, f.label) for f in res.failures))[:4]
            elif res.undecided and status == "SURVIVED":
                status = "undecided (%s)" % res.undecided[0][:80]
    finally:
        shutil.rmtree(dst, ignore_errors=True)
    return dict(id=m["id"], change="%s: `%s` -> `%s`" % (m["file"], m["frm"][:70].replace("\n", " "), m["to"][:70].replace("\n", " ")), status=status, by=by)


def run(pid, repo, work):
    with open(os.path.join(ROOT, "mutants", "catalogue.json")) as f:
        cat = [m for m in json.load(f) if pid in m["props"]]
    if not cat:
        return dict(total=0, killed=0, results=[])
    with cf.ThreadPoolExecutor(max_workers=6) as ex:
        results = list(ex.map(lambda m: _one(m, pid, repo, work), cat))
    killed = sum(1 for r in results if r["status"].startswith("killed"))
    return dict(total=len(results), killed=killed, results=results)


def run_seeded(pid, repo, work):
    """Thorough tier, second self-test: every change recorded under seeded/<id>/ for this property (written by independent
    sub-agents, each breaks the property while the 75 tests still pass) is applied to a scratch copy of the current tree and
    the property's own QUICK check must report a violation there.  Evidence and replays of these inner runs go to a scratch
    directory (VERIF_OUT); a miss is reported in the evidence and does not change the exit code."""
    import glob
    import sys
    res = []
    for meta_p in sorted(glob.glob(os.path.join(ROOT, "seeded", "*", "meta.json"))):
        d = os.path.dirname(meta_p)
        sid = os.path.basename(d)
        try:
            with open(meta_p) as f:
                meta = json.load(f)
        except Exception:
            continue
        if meta.get("property") != pid or meta.get("superseded_by"):
            continue
        patch = os.path.join(d, "patch_current.diff")
        if not os.path.exists(patch):
            patch = os.path.join(d, "patch.diff")
        dst = os.path.join(work, "seeded-" + sid)
        out = os.path.join(work, "seeded-out-" + sid)
        os.makedirs(out, exist_ok=True)
        subprocess.run(["rsync", "-a", "--exclude", "target", "--exclude", ".git", repo.rstrip("/") + "/", dst + "/"], check=True)
        try:
            with open(patch) as pf:
                ap = subprocess.run(["patch", "-p1", "-s", "--no-backup-if-mismatch"], cwd=dst, stdin=pf, capture_output=True, text=True)
            if ap.returncode != 0:
                res.append(dict(id=sid, status="not-applicable (the recorded patch does not apply to this tree)"))
                continue
            env = dict(os.environ)
            env.update(VERIF_REPO=dst, VERIF_OUT=out, VERIF_TIER="quick")
            p = subprocess.run([sys.executable, "-m", "vx.driver", pid, "--tier", "quick"], cwd=ROOT, env=env, capture_output=True, text=True, timeout=3000)
            lines = [l for l in p.stdout.split("\n") if l.startswith("VIOLATION")]
            status = "caught" if p.returncode == 1 and lines else ("undecided (exit 2)" if p.returncode == 2 else "MISSED")
            res.append(dict(id=sid, status=status, violations=len(lines), with_concrete_input=sum(1 for l in lines if "no-failing-input-found" not in l)))
        except subprocess.TimeoutExpired:
            res.append(dict(id=sid, status="undecided (timeout)"))
        finally:
            shutil.rmtree(dst, ignore_errors=True)
            shutil.rmtree(out, ignore_errors=True)
    return dict(total=len(res), caught=sum(1 for r in res if r["status"] == "caught"), results=res)

