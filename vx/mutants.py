"""Detection self-test (thorough tier): every mutant of the committed catalogue that targets the property must turn
the property's Verus obligations red.  A survivor is a weakness of the contracts, not of /repo; it is reported in the
evidence and does not change the exit code."""
import concurrent.futures as cf
import json
import os
import shutil
import subprocess

from . import registry, verus
from .extract import Undecided
from .unit import assemble

ROOT = os.path.dirname(os.path.dirname(os.path.abspath(__file__)))


def _one(m, pid, repo, work):
    dst = os.path.join(work, "mut-" + m["id"])
    os.makedirs(dst, exist_ok=True)
    subprocess.run(["rsync", "-a", os.path.join(repo, "src"), dst + "/"], check=True)
    p = os.path.join(dst, m["file"])
    with open(p) as f:
        s = f.read()
    if m["frm"] not in s:
        shutil.rmtree(dst, ignore_errors=True)
        return dict(id=m["id"], status="not-applicable (pattern absent on this tree)")
    with open(p, "w") as f:
        f.write(s.replace(m["frm"], m["to"], 1))
    status, by = "SURVIVED", []
    try:
        for u in m["units"]:
            cfg = registry.VERUS_UNITS[u]
            try:
                asm = assemble(os.path.join(ROOT, cfg["template"]), dst, ROOT)
            except Undecided as e:
                status = "undecided (%s)" % str(e)[:80]
                continue
            res = verus.run(asm, os.path.join(dst, "out", u, "unit.rs"), cfg.get("rlimit", 60), threads=2)
            hit = [f for f in res.failures if pid in f.props]
            if hit:
                status = "killed"
                by = sorted(set("%s/%s" % (f.fn, f.label) for f in hit))[:4]
                break
            if res.failures:
                status = "killed (obligation of another property)"
                by = sorted(set("%s/%s" % (f.fn, f.label) for f in res.failures))[:4]
            elif res.undecided and status == "SURVIVED":
                status = "undecided (%s)" % res.undecided[0][:80]
    finally:
        shutil.rmtree(dst, ignore_errors=True)
    return dict(id=m["id"], change="%s: `%s` -> `%s`" % (m["file"], m["frm"][:70].replace("\n", " "), m["to"][:70].replace("\n", " ")), status=status, by=by)


def run(pid, repo, work):
    with open(os.path.join(ROOT, "mutants", "catalogue.json")) as f:
        cat = [m for m in json.load(f) if pid in m["props"]]
    if not cat:
        return dict(total=0, killed=0, results=[])
    with cf.ThreadPoolExecutor(max_workers=6) as ex:
        results = list(ex.map(lambda m: _one(m, pid, repo, work), cat))
    killed = sum(1 for r in results if r["status"].startswith("killed"))
    return dict(total=len(results), killed=killed, results=results)
