"""Which machinery decides which property (DESIGN.md §5, §7)."""

VERUS_UNITS = {
    "u4_policy": dict(template="units/u4_policy.vrs", rlimit=80),
    "u1_estimator": dict(template="units/u1_estimator.vrs", rlimit=80),
    "u5_ttl": dict(template="units/u5_ttl.vrs", rlimit=80),
    "u6_store": dict(template="units/u6_store.vrs", rlimit=120),
    "u7_glue": dict(template="units/u7_glue.vrs", rlimit=120),
    "u8_builder": dict(template="units/u8_builder.vrs", rlimit=80),
    "u9_metrics": dict(template="units/u9_metrics.vrs", rlimit=80),
    "u8_builder_async": dict(template="units/u8_builder_async.vrs", rlimit=80),
    "u10_valueref": dict(template="units/u10_valueref.vrs", rlimit=60),
    "u19_async": dict(template="units/u19_async.vrs", rlimit=120),
    "u19_async_policy": dict(template="units/u19_async_policy.vrs", rlimit=120),
}

# Kani harness groups: appended as a child module to `file` in a scratch copy of /repo
KANI_GROUPS = {
    "keys": dict(file="src/lib.rs", include="kani/keys.rs", args=[], timeout=1500,
                 trusted=["kani/keys: std's Hash impls for the primitive integers call Hasher::write_<int> exactly once (as compiled by Kani's pinned std)"]),
    "histogram": dict(file="src/histogram.rs", include="kani/histogram.rs", args=[], timeout=1500,
                      trusted=["kani/histogram: the 16 power-of-two bounds of metrics::new_histogram_bound (fixed loop bound 17, unwinding assertions on); atomics executed sequentially"]),
    "ttl": dict(file="src/ttl.rs", include="kani/ttl.rs", args=[], timeout=1500,
                trusted=["kani/ttl: SystemTime::now is stubbed by a settable clock (faithful: Time only calls now()/elapsed()/duration_since()); seconds below 2^40 (year 36812); the OS clock is assumed monotone between the two reads of one scenario (elapsed().unwrap() panics otherwise)"]),
    "sketch": dict(file="src/sketch.rs", include="kani/sketch.rs", args=[], timeout=1500,
                   trusted=["kani/sketch: rows of 4 bytes (8 counters); the addressing code does not depend on the row length; unwinding assertions on"]),
    "bbloom": dict(file="src/bbloom.rs", include="kani/bbloom.rs", args=[], timeout=1200,
                   trusted=["kani/bbloom: little-endian target (x86-64) byte order; layouts of 8 (quick) and 16 (thorough) words; Bloom::new builds 2^k-bit arrays whose addressing code does not depend on the length"]),
}

# lane R: executable oracles of the same contracts, appended as #[cfg(test)] child modules
REPLAY_GROUPS = {
    "estimator": dict(file="src/policy.rs", include="replay/estimator.rs"),
    "ttl": dict(file="src/ttl.rs", include="replay/ttl.rs"),
    "policy": dict(file="src/policy/sync.rs", include="replay/policy.rs"),
    "cache": dict(file="src/cache/sync.rs", include="replay/cache.rs"),
    # the async flavour's whole-cache oracle: derived mechanically from replay/cache.rs at run time (vx/replay.py::derive_async_oracle)
    "async_sweep": dict(file="src/ttl.rs", include="replay/ttl.rs", derive="async-sweep", features=["full"]),
    "async_cache": dict(file="src/cache/async.rs", include="replay/cache.rs", derive="async", features=["full"]),
}

PROPS = {
    "C01": dict(units=["u4_policy", "u19_async_policy", "u8_builder", "u8_builder_async", "u6_store", "u7_glue", "u19_async"], kani=[], replay=["policy", "cache", "async_cache"]),
    "C07": dict(units=["u4_policy", "u1_estimator", "u19_async_policy", "u8_builder", "u8_builder_async", "u6_store", "u7_glue", "u19_async"], kani=["sketch"], replay=["policy", "estimator", "cache", "async_cache"]),
    "C13": dict(units=["u1_estimator", "u8_builder", "u8_builder_async", "u4_policy", "u19_async_policy"], kani=["bbloom", "sketch"], replay=["estimator", "policy", "cache"]),
    "C14": dict(units=["u1_estimator"], kani=["bbloom", "sketch"], replay=["estimator"]),
    "C20": dict(units=["u1_estimator", "u8_builder", "u7_glue", "u19_async", "u8_builder_async", "u6_store", "u4_policy", "u19_async_policy", "u5_ttl", "u9_metrics"], kani=["bbloom", "ttl", "sketch"], replay=["estimator", "cache", "async_cache"], probes=[("cache", "huge_cost_update_keeps_the_worker_alive")],
                guards=[("cache", "extreme_configurations_work"), ("async_cache", "async_extreme_configurations_work")]),
    "C02": dict(units=["u6_store", "u7_glue", "u19_async", "u8_builder", "u8_builder_async", "u10_valueref"], kani=["keys", "ttl"], replay=["ttl", "async_sweep", "cache", "async_cache"]),
    "C03": dict(units=["u6_store", "u7_glue", "u19_async", "u10_valueref"], kani=["ttl"], replay=["ttl", "async_sweep"]),
    "C04": dict(units=["u6_store", "u4_policy", "u7_glue", "u19_async", "u19_async_policy", "u8_builder", "u8_builder_async"], kani=["ttl", "keys"], replay=["ttl", "async_sweep", "policy", "cache", "async_cache"]),
    "C05": dict(units=["u6_store", "u4_policy", "u8_builder", "u19_async_policy", "u8_builder_async"], kani=["ttl"], replay=["ttl", "async_sweep", "cache"]),
    "C09": dict(units=["u6_store", "u7_glue", "u19_async", "u8_builder", "u8_builder_async", "u4_policy", "u19_async_policy"], kani=["keys"], replay=["ttl", "async_sweep", "cache", "async_cache"]),
    "C18": dict(units=["u6_store", "u7_glue", "u19_async", "u8_builder", "u8_builder_async"], kani=["keys"], replay=["ttl", "async_sweep", "cache", "async_cache"]),
    "C06": dict(units=["u7_glue", "u6_store", "u4_policy", "u19_async", "u19_async_policy"], kani=["keys"], replay=["ttl", "async_sweep", "policy", "cache", "async_cache"]),
    "C08": dict(units=["u7_glue", "u6_store", "u19_async", "u8_builder", "u8_builder_async", "u5_ttl"], kani=["ttl"], replay=["ttl", "async_sweep", "cache", "async_cache"]),
    "C11": dict(units=["u7_glue", "u6_store", "u4_policy", "u1_estimator", "u19_async", "u19_async_policy", "u9_metrics", "u8_builder", "u8_builder_async"], kani=["histogram", "sketch"], replay=["ttl", "async_sweep", "estimator", "cache", "async_cache", "policy"],
                probes=[("cache", "insert_after_clear_is_kept")]),
    "C15": dict(units=["u7_glue", "u1_estimator", "u8_builder", "u19_async", "u8_builder_async", "u9_metrics"], kani=["sketch"], replay=["estimator", "cache"]),
    "C16": dict(units=["u7_glue", "u4_policy", "u6_store", "u8_builder", "u19_async", "u19_async_policy", "u8_builder_async"], kani=[], replay=["policy", "ttl", "async_sweep", "cache", "async_cache"]),
    "C17": dict(units=["u7_glue", "u4_policy", "u8_builder", "u19_async", "u19_async_policy", "u9_metrics", "u8_builder_async"], kani=["histogram"], replay=["policy", "cache", "async_cache"]),
    # guards: bounded stand-ins that run on EVERY check of the property, for code no contract reaches (spawn loops, tickers, channels)
    "C19": dict(guards=[("async_cache", "async_extreme_configurations_work")], units=["u19_async", "u19_async_policy", "u6_store", "u8_builder_async"], kani=[], replay=["async_cache", "ttl", "async_sweep"]),
}

ASSUMPTIONS = {
    "A-lock": "R6/R8: a critical section under parking_lot Mutex/RwLock is atomic w.r.t. every other access to the same data; the lock is erased and `&self` methods that write under it are verified as `&mut self`. Deadlock/contention are not modelled.",
    "A-atomic": "R10: SampledLFU.max_cost (AtomicI64) is treated as a plain i64 inside a critical section: every writer (LFUPolicy::update_max_cost) takes the policy mutex first.",
    "A-metrics": "R9: inside the policy/glue units Arc<Metrics> is modelled as a ledger of unbounded integer counters (prelude/metrics_model.rs). That model is no longer free-standing: unit u9_metrics verifies MetricsInner::{add,get,clear,track_eviction, 11 getters} and Metrics::{is_op,is_noop,add,clear,track_eviction} against 'counter of a type = sum of its 256 stripes' with the atomics erased (sequential execution) and BTreeMap::get as a trusted finite-map lookup. Still trusted: the correspondence ledger-model <-> u9 contracts is by matching clause text, MetricsInner::new (iterator chain + vec_to_array), sums stay below 2^64, the closure-taking Metrics::get_* wrappers (Metrics::map).",
    "A-hashmap": "vstd's specifications of std::collections::HashMap (insert/get/remove/contains_key/clear/len/iter) plus the assumed specification of HashMap::get_mut in prelude/hashmap_get_mut.rs; obeys_key_model::<u64>() and builds_valid_hashers::<S>() are preconditions (true for u64 keys and std/RandomState-like hashers).",
    "A-range": "machine arithmetic is checked, not idealised: every +,-,*,<<,as is proved free of overflow under the stated input range: non-negative costs, |max_cost| and charged total below 2^60, clock readings below 2^40 s (year 36812), metric stripe sums below 2^64. TTLs are NOT restricted: every Duration up to Duration::MAX is covered (the deadline saturates; finding F14 came from an earlier restriction here). Inputs outside the range (negative or astronomically large costs) are not decided.",
    "A-z3": "Z3 (Verus back end) and CBMC/CaDiCaL (Kani back end) are trusted.",
}

# A clause tagged with the key serves the listed properties as well: their statements are *about* the quantity the key property pins
# down.  C16 fixes what every entry is charged; C01 (total <= max_cost), C07 (room / eviction decisions) and C04 (nothing lost while
# everything fits) are statements over exactly those charges.
IMPLIES = {
    "C16": ("C01", "C07", "C04", "C09"),
    # C09: a conditional write on a resident key "behaves as an update of value and cost" - the cost half is what C16 pins down.
    # C05 -> C08: an expired entry that is never reclaimed is a value that is neither served nor handed to a callback; every clause
    # that reclamation rests on (bucket numbering, listings, the sweeps) therefore also serves "resident xor exactly one callback".
    "C05": ("C08",),
    # C03 -> C02: "a lookup returns the latest value until it is removed, expires or is evicted" - a clause that pins down WHEN an
    # entry counts as expired also decides whether a lookup of a live entry finds it.
    "C03": ("C02",),
}

# The safety obligation of a function under contract (no arithmetic overflow, no index out of bounds, no failed callee precondition,
# no failed assert: the ways sequential Rust code panics) serves these properties whatever the function's own tags are: C20 is
# "no operation panics in the caller or kills a background worker", so every function the workers execute counts.
SAFETY_SERVES = ("C20",)

# Second opinion: for these functions a COMPLETE Kani harness (full input domain of the real function, loop-free or with exact
# unwinding) decides the same statements as the Verus clauses.  When Verus fails to re-prove a clause of such a function (for
# instance after `& 0x0f` was rewritten as `% 16`: the bit-vector proof hints no longer match) while every listed harness passes
# on the same tree, the failure is proof brittleness, not a violation; the check reports a SECOND-OPINION note instead.
SECOND_OPINION = {
    "CountMinRow::get": ("sketch", ["sketch_row_get"]),
    "CountMinRow::increment": ("sketch", ["sketch_row_increment"]),
    "CountMinRow::reset": ("sketch", ["sketch_row_reset_clear"]),
    "CountMinRow::clear": ("sketch", ["sketch_row_reset_clear"]),
}

