"""Lane R: turn a failed obligation into a replay file, searching for a concrete failing input on the
real crate (executable oracles of the same contracts, compiled into a scratch copy as a #[cfg(test)]
child module), and re-run a recorded replay on any tree."""
import json
import os
import re
import shutil
import subprocess
import tempfile
import time

from . import registry

ROOT = os.path.dirname(os.path.dirname(os.path.abspath(__file__)))


def OUT():
    """where evidence/ and replays/ are written: /verif, or a scratch directory for the self-test runs of the thorough tier"""
    return os.environ.get("VERIF_OUT") or ROOT

CACHE = os.path.join(ROOT, ".cache")


def scratch_copy(repo, work, tag):
    dst = os.path.join(work, "repo-" + tag)
    subprocess.run(["rsync", "-a", "--exclude", "target", "--exclude", ".git", repo.rstrip("/") + "/", dst + "/"], check=True)
    return dst


def cargo_env(target):
    env = dict(os.environ)
    env["CARGO_NET_OFFLINE"] = "true"
    env["CARGO_TARGET_DIR"] = os.path.join(CACHE, target)
    env.pop("RUSTUP_TOOLCHAIN", None)
    return env


def append_module(scratch, file, modname, include_path, cfg):
    p = os.path.join(scratch, file)
    with open(p, "a") as f:
        f.write("\n#[cfg(%s)]\nmod %s { include!(\"%s\"); }\n" % (cfg, modname, include_path))


def derive_async_oracle(src_text):
    """The async flavour's whole-cache oracle is DERIVED from the sync one (replay/cache.rs) on every run, so the two cannot
    drift: same model, same checks; the cache is an AsyncCache built with finalize(tokio::spawn), every async call is awaited,
    the test body runs inside a multi-thread tokio runtime.  Only the main oracle is derived."""
    s = src_text
    a = s.index("#[test]\nfn cache_at_quiescence_matches_model() {")
    b = s.index("\n}\n", a) + 3
    head, fn = s[:a], s[a:b]
    # keep the shared helper types of the header, drop nothing else
    fn = fn.replace("fn cache_at_quiescence_matches_model()", "fn async_cache_at_quiescence_matches_model()")
    fn = fn.replace('"cache_at_quiescence_matches_model"', '"async_cache_at_quiescence_matches_model"')
    fn = fn.replace("let c: Cache<u64, u64, OracleKb, ValueCoster, Mono, Rec> = Cache::builder(200, max_cost)",
                    "let c: AsyncCache<u64, u64, OracleKb, ValueCoster, Mono, Rec> = AsyncCache::builder(200, max_cost)")
    fn = fn.replace(".finalize()\n", ".finalize(tokio::spawn)\n")
    for call in ("c.insert_if_present(k, next_val, cost)", "c.remove(&k)", "c.clear()", "c.wait()", "c.close()", "c.get(&k)"):
        if call not in fn:
            raise RuntimeError("derive_async_oracle: call shape %s not found" % call)
        fn = fn.replace(call, call + ".await")
    m = re.search(r"if with_ttl \{ (c\.insert_with_ttl\([^;]*?\)) \} else \{ (c\.insert\([^;]*?\)) \}", fn)
    if not m:
        raise RuntimeError("derive_async_oracle: insert shape")
    fn = fn.replace(m.group(0), "if with_ttl { %s.await } else { %s.await }" % (m.group(1), m.group(2)))
    fn = fn.replace("std::thread::yield_now();", "tokio::task::yield_now().await;")
    fn = fn.replace("std::thread::sleep(Duration::from_millis(2));", "tokio::time::sleep(Duration::from_millis(2)).await;")
    fn = fn.replace('"Cache(num_counters', '"AsyncCache(num_counters')
    g0 = fn.index("guarded(")
    g1 = fn.index("|| {", g0) + 4
    g2 = fn.rindex("});")
    fn = (fn[:g1] + "\n    tokio::runtime::Builder::new_multi_thread().worker_threads(2).enable_all().build().unwrap().block_on(async {\n"
          + fn[g1:g2] + "\n    });\n    " + fn[g2:])
    if "c.finalize()" in fn or ".await.await" in fn:
        raise RuntimeError("derive_async_oracle: leftover")
    fn = fn.replace('&["C', '&["C19", "C')      # every clause of the async flavour also serves C19
    return head + fn + _derive_async_extremes(s) + _derive_async_generic(s, "colliding_keys_stay_isolated")


AWAITED = ("insert", "insert_with_ttl", "insert_if_present", "remove", "clear", "wait", "close", "get", "get_mut")


def _derive_async_generic(s, name):
    """a scripted oracle test of replay/cache.rs for the async flavour: AsyncCache built with finalize(tokio::spawn), every call of an
    async method on the cache handle `c` awaited, body inside a tokio runtime"""
    tag = "#[test]\nfn %s() {" % name
    if tag not in s:
        return ""
    a = s.index(tag)
    b = s.index("\n}\n", a) + 3
    fn = s[a:b]
    fn = fn.replace("fn %s()" % name, "fn async_%s()" % name).replace('"%s"' % name, '"async_%s"' % name)
    fn = fn.replace("let c: Cache<", "let c: AsyncCache<").replace("= Cache::builder(", "= AsyncCache::builder(").replace(".finalize()", ".finalize(tokio::spawn)")
    out, i = [], 0
    rx = re.compile(r"\bc\.(%s)\(" % "|".join(AWAITED))
    while True:
        m = rx.search(fn, i)
        if not m:
            out.append(fn[i:])
            break
        j, depth = m.end(), 1
        while depth:
            ch = fn[j]
            depth += (ch == "(") - (ch == ")")
            j += 1
        out.append(fn[i:j] + ".await")
        i = j
    fn = "".join(out)
    g0 = fn.index("guarded(")
    g1 = fn.index("|| {", g0) + 4
    g2 = fn.rindex("});")
    fn = (fn[:g1] + "\n    tokio::runtime::Builder::new_multi_thread().worker_threads(2).enable_all().build().unwrap().block_on(async {\n"
          + fn[g1:g2] + "\n    });\n    " + fn[g2:])
    fn = fn.replace('"Cache(', '"AsyncCache(').replace('&["C', '&["C19", "C')
    return "\n" + fn


def _derive_async_extremes(s):
    """the bounded guard `extreme_configurations_work` for the async flavour: same configurations and workload, AsyncCache built with
    finalize(tokio::spawn), calls awaited, workload inside a tokio runtime of its own"""
    if "fn extreme_configurations_work()" not in s:
        return ""
    a = s.index("#[test]\nfn extreme_configurations_work() {")
    b = s.index("\n}\n", a) + 3
    fn = s[a:b]
    fn = fn.replace("fn extreme_configurations_work()", "fn async_extreme_configurations_work()").replace('"extreme_configurations_work"', '"async_extreme_configurations_work"')
    w0 = fn.index("/*WORKLOAD-BEGIN*/")
    w1 = fn.index("/*WORKLOAD-END*/")
    body = fn[w0:w1]
    for frm, to in (("Cache<u64, u64, TransparentKeyBuilder<u64>>", "AsyncCache<u64, u64, TransparentKeyBuilder<u64>>"), ("Cache::builder(", "AsyncCache::builder("),
                    (".finalize()", ".finalize(tokio::spawn)"), ("c.wait().is_ok()", "c.wait().await.is_ok()"), ("c.insert(k, k, 1);", "c.insert(k, k, 1).await;"),
                    ("c.get(&0);", "c.get(&0).await;"), ("c.get(&7);", "c.get(&7).await;"), ("c.insert(0, 100, 1);", "c.insert(0, 100, 1).await;"),
                    ("c.insert_with_ttl(5, 5, 1, Duration::from_millis(1));", "c.insert_with_ttl(5, 5, 1, Duration::from_millis(1)).await;"),
                    ("c.remove(&1);", "c.remove(&1).await;"), ("c.clear().is_err()", "c.clear().await.is_err()"), ("c.insert(9, 9, 1);", "c.insert(9, 9, 1).await;"),
                    ("c.close().is_err()", "c.close().await.is_err()"), ("std::thread::sleep(Duration::from_millis(1));", "tokio::time::sleep(Duration::from_millis(1)).await;"),
                    ("std::thread::sleep(Duration::from_millis(20));", "tokio::time::sleep(Duration::from_millis(20)).await;")):
        if frm not in body:
            raise RuntimeError("derive async extremes: %s not found" % frm)
        body = body.replace(frm, to)
    body = ("tokio::runtime::Builder::new_multi_thread().worker_threads(2).enable_all().build().unwrap().block_on(async {\n" + body + "\n})")
    fn = fn[:w0] + body + fn[w1:]
    fn = fn.replace('"Cache::builder(', '"AsyncCache::builder(').replace('&["C', '&["C19", "C')
    return "\n" + fn


def derive_async_sweep_oracle(src_text):
    """async flavour of the store sweep oracle (replay/ttl.rs::store_cleanup_removes_only_expired): the same script and checks
    against ShardedMap::try_cleanup_async with an AsyncLFUPolicy, inside a tokio runtime"""
    s = src_text
    a = s.index("#[test]\nfn store_cleanup_removes_only_expired() {")
    b = s.index("\n}\n", a) + 3
    h1 = s.index("#[test]")          # helpers before the first test
    head, fn = s[:h1], s[a:b]
    fn = fn.replace("fn store_cleanup_removes_only_expired()", "fn async_store_cleanup_removes_only_expired()")
    fn = fn.replace('"store_cleanup_removes_only_expired"', '"async_store_cleanup_removes_only_expired"')
    for frm, to in (("use crate::policy::LFUPolicy;", "use crate::policy::AsyncLFUPolicy;"),
                    ("LFUPolicy::new(100, 1000)", "AsyncLFUPolicy::new(100, 1000, tokio::spawn)"),
                    ("s.try_cleanup(p.clone())", "s.try_cleanup_async(p.clone())"),
                    ("let _ = p.close();", "let _ = p.close().await;"),
                    ('"ShardedMap::try_cleanup"', '"ShardedMap::try_cleanup_async"')):
        if frm not in fn:
            raise RuntimeError("derive_async_sweep_oracle: %s not found" % frm)
        fn = fn.replace(frm, to)
    fn = fn.replace("try_cleanup(policy)", "try_cleanup_async(policy)")
    g0 = fn.index("guarded(")
    g1 = fn.index("|| {", g0) + 4
    g2 = fn.rindex("});")
    fn = (fn[:g1] + "\n    tokio::runtime::Builder::new_multi_thread().worker_threads(2).enable_all().build().unwrap().block_on(async {\n"
          + fn[g1:g2] + "\n    });\n    " + fn[g2:])
    fn = fn.replace('&["C', '&["C19", "C')
    return head + fn


def run_oracles(groups, repo, work, seed, only=None, iters=None):
    """returns list of dict(test, clause, props, input, observed, required) for every REPLAY-FAIL line"""
    if not groups:
        return [], ""
    scratch = scratch_copy(repo, work, "replay%d" % int(time.time() * 1000 % 100000))
    names = []
    features = []
    for g in groups:
        cfg = registry.REPLAY_GROUPS[g]
        inc = os.path.join(ROOT, cfg["include"])
        if cfg.get("derive") in ("async", "async-sweep"):
            with open(inc) as f:
                derived = (derive_async_oracle if cfg["derive"] == "async" else derive_async_sweep_oracle)(f.read())
            inc = os.path.join(scratch, "verif_derived_%s.rs" % g)
            with open(inc, "w") as f:
                f.write(derived)
        append_module(scratch, cfg["file"], "verif_replay_" + g, inc, "test")
        names.append("verif_replay_" + g)
        for ft in cfg.get("features", []):
            if ft not in features:
                features.append(ft)
    env = cargo_env("target-test-" + "-".join(features) if features else "target-test")
    env["VERIF_SEED"] = str(seed)
    if iters:
        env["VERIF_ITERS"] = str(iters)
    if only:
        env["VERIF_ONLY"] = only
    cmd = ["cargo", "test", "--offline", "--lib", "--quiet"] + (["--features", ",".join(features)] if features else []) + [
        "verif_replay_", "--", "--nocapture", "--test-threads", "1"]
    try:
        p = subprocess.run(cmd, cwd=scratch, env=env, capture_output=True, text=True, timeout=1500)
        out = p.stdout + "\n" + p.stderr
    except subprocess.TimeoutExpired as e:
        out = "TIMEOUT\n" + str(e.stdout or "")
    shutil.rmtree(scratch, ignore_errors=True)
    fails = []
    if "could not compile" in out and "test result:" not in out:
        # the oracles no longer build against this tree (an item they use changed shape): no search was made
        out = "ORACLE-BUILD-FAILED\n" + out
    for ln in out.split("\n"):
        m = re.search(r"REPLAY-FAIL (\{.*\})\s*$", ln.strip())
        if m:
            try:
                fails.append(json.loads(m.group(1)))
            except Exception:
                pass
    return fails, out


_oracle_cache = {}


def write_violation(pid, n, kind, unit, f, repo, work, seed, cfg):
    """returns (path, found_input: bool)"""
    os.makedirs(os.path.join(OUT(), "replays"), exist_ok=True)
    path = os.path.join(OUT(), "replays", "%s-%d.json" % (pid, n))
    doc = dict(property=pid, lane=kind, seed=seed, tree=repo)
    found = False
    if kind == "verus":
        doc.update(unit=unit, failed_obligation="%s:%s/%s" % (unit, f.fn, f.label), **f.to_json())
    else:
        doc.update(unit=unit["group"], failed_obligation="%s:%s" % (unit["group"], f["name"]), function=f["target"],
                   claim=f["claim"], verifier_output=f.get("output", "")[-6000:])
        if f.get("counterexample"):
            doc["counterexample"] = f["counterexample"]
            doc["replay"] = dict(kind="kani-concrete", note="values Kani assigned to the harness inputs; the harness runs the real function on them")
            found = True
    groups = cfg.get("replay", [])
    if groups and not found:
        ck = (tuple(groups), repo, seed)
        if ck not in _oracle_cache:
            _oracle_cache[ck] = run_oracles(groups, repo, work, seed)
        fails, out = _oracle_cache[ck]
        mine = [x for x in fails if pid in x.get("props", []) or any(pid in registry.IMPLIES.get(tg, ()) for tg in x.get("props", []))]
        # an input that merely re-observes a recorded open finding is not a counterexample for this obligation
        try:
            with open(os.path.join(ROOT, "known_findings.json")) as kf:
                open_keys = set(k.get("obligation") for k in json.load(kf).get("findings", []) if k.get("status") == "open")
        except Exception:
            open_keys = set()
        mine = [x for x in mine if ("oracle:%s" % x.get("clause")) not in open_keys]
        # prefer a failure of the same function
        fn = doc.get("function", "")
        lab = doc.get("obligation", "") or doc.get("failed_obligation", "")
        same = ([x for x in mine if x.get("clause") and x["clause"] in lab]
                or [x for x in mine if x.get("function") and x["function"].split("::")[-1] in fn] or mine)
        if same:
            doc["counterexample"] = same[0]
            doc["replay"] = dict(kind="oracle-test", groups=groups, test=same[0].get("test"), seed=seed,
                                 note="input found by seeded search with the executable oracle of the same contract, run against the real crate")
            found = True
        else:
            doc["search"] = dict(groups=groups, seed=seed, result="no failing input found", tail=out[-1500:])
    if not found:
        doc["note"] = "no-failing-input-found: the verifier gives no counterexample for this obligation; the obligation is discharged on the pinned tree and fails on this one"
    with open(path, "w") as fo:
        json.dump(doc, fo, indent=1, default=str)
    return path, found


def rerun(pid, path, repo):
    with open(path) as f:
        doc = json.load(f)
    rp = doc.get("replay")
    print("replay of %s: obligation %s" % (path, doc.get("failed_obligation")))
    if not rp:
        print("no concrete input recorded (no-failing-input-found); re-running the check instead")
        from . import driver
        return driver.main([pid])
    work = tempfile.mkdtemp(prefix="vx-replay-")
    try:
        if rp["kind"] == "oracle-test":
            fails, out = run_oracles(rp["groups"], repo, work, rp.get("seed", 0), only=rp.get("test"))
            mine = [x for x in fails if x.get("clause") == doc["counterexample"].get("clause")]
            if mine:
                print("REPRODUCED on %s: %s" % (repo, json.dumps(mine[0])))
                print("VIOLATION property=%s replay=%s" % (pid, path))
                return 1
            print("not reproduced on %s" % repo)
            return 0
        if rp["kind"] == "kani-concrete":
            from . import kani
            grp = doc["unit"]
            res = kani.run_groups([grp], pid, repo, work, "quick", only=doc["failed_obligation"].split(":", 1)[1])
            for k in res:
                for h in k["harnesses"]:
                    if h["status"] == "FAILED":
                        print("REPRODUCED on %s: %s %s" % (repo, h["name"], json.dumps(h.get("counterexample"))))
                        print("VIOLATION property=%s replay=%s" % (pid, path))
                        return 1
            print("not reproduced on %s" % repo)
            return 0
    finally:
        shutil.rmtree(work, ignore_errors=True)
    return 2
