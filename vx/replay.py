"""Lane R: turn a failed obligation into a replay file, searching for a concrete failing input on the
real crate (executable oracles of the same contracts, compiled into a scratch copy as a #[cfg(test)]
child module), and re-run a recorded replay on any tree."""
import json
import os
import re
import shutil
import subprocess
import tempfile
import time

from . import registry

ROOT = os.path.dirname(os.path.dirname(os.path.abspath(__file__)))
CACHE = os.path.join(ROOT, ".cache")


def scratch_copy(repo, work, tag):
    dst = os.path.join(work, "repo-" + tag)
    subprocess.run(["rsync", "-a", "--exclude", "target", "--exclude", ".git", repo.rstrip("/") + "/", dst + "/"], check=True)
    return dst


def cargo_env(target):
    env = dict(os.environ)
    env["CARGO_NET_OFFLINE"] = "true"
    env["CARGO_TARGET_DIR"] = os.path.join(CACHE, target)
    env.pop("RUSTUP_TOOLCHAIN", None)
    return env


def append_module(scratch, file, modname, include_path, cfg):
    p = os.path.join(scratch, file)
    with open(p, "a") as f:
        f.write("\n#[cfg(%s)]\nmod %s { include!(\"%s\"); }\n" % (cfg, modname, include_path))


def run_oracles(groups, repo, work, seed, only=None, iters=None):
    """returns list of dict(test, clause, props, input, observed, required) for every REPLAY-FAIL line"""
    if not groups:
        return [], ""
    scratch = scratch_copy(repo, work, "replay%d" % int(time.time() * 1000 % 100000))
    names = []
    for g in groups:
        cfg = registry.REPLAY_GROUPS[g]
        append_module(scratch, cfg["file"], "verif_replay_" + g, os.path.join(ROOT, cfg["include"]), "test")
        names.append("verif_replay_" + g)
    env = cargo_env("target-test")
    env["VERIF_SEED"] = str(seed)
    if iters:
        env["VERIF_ITERS"] = str(iters)
    if only:
        env["VERIF_ONLY"] = only
    cmd = ["cargo", "test", "--offline", "--lib", "--quiet", "verif_replay_", "--", "--nocapture", "--test-threads", "1"]
    try:
        p = subprocess.run(cmd, cwd=scratch, env=env, capture_output=True, text=True, timeout=1500)
        out = p.stdout + "\n" + p.stderr
    except subprocess.TimeoutExpired as e:
        out = "TIMEOUT\n" + str(e.stdout or "")
    shutil.rmtree(scratch, ignore_errors=True)
    fails = []
    for ln in out.split("\n"):
        m = re.search(r"REPLAY-FAIL (\{.*\})\s*$", ln.strip())
        if m:
            try:
                fails.append(json.loads(m.group(1)))
            except Exception:
                pass
    return fails, out


_oracle_cache = {}


def write_violation(pid, n, kind, unit, f, repo, work, seed, cfg):
    """returns (path, found_input: bool)"""
    os.makedirs(os.path.join(ROOT, "replays"), exist_ok=True)
    path = os.path.join(ROOT, "replays", "%s-%d.json" % (pid, n))
    doc = dict(property=pid, lane=kind, seed=seed, tree=repo)
    found = False
    if kind == "verus":
        doc.update(unit=unit, failed_obligation="%s:%s/%s" % (unit, f.fn, f.label), **f.to_json())
    else:
        doc.update(unit=unit["group"], failed_obligation="%s:%s" % (unit["group"], f["name"]), function=f["target"],
                   claim=f["claim"], verifier_output=f.get("output", "")[-6000:])
        if f.get("counterexample"):
            doc["counterexample"] = f["counterexample"]
            doc["replay"] = dict(kind="kani-concrete", note="values Kani assigned to the harness inputs; the harness runs the real function on them")
            found = True
    groups = cfg.get("replay", [])
    if groups and not found:
        ck = (tuple(groups), repo, seed)
        if ck not in _oracle_cache:
            _oracle_cache[ck] = run_oracles(groups, repo, work, seed)
        fails, out = _oracle_cache[ck]
        mine = [x for x in fails if pid in x.get("props", [])]
        # an input that merely re-observes a recorded open finding is not a counterexample for this obligation
        try:
            with open(os.path.join(ROOT, "known_findings.json")) as kf:
                open_keys = set(k.get("obligation") for k in json.load(kf).get("findings", []) if k.get("status") == "open")
        except Exception:
            open_keys = set()
        mine = [x for x in mine if ("oracle:%s" % x.get("clause")) not in open_keys]
        # prefer a failure of the same function
        fn = doc.get("function", "")
        lab = doc.get("obligation", "") or doc.get("failed_obligation", "")
        same = ([x for x in mine if x.get("clause") and x["clause"] in lab]
                or [x for x in mine if x.get("function") and x["function"].split("::")[-1] in fn] or mine)
        if same:
            doc["counterexample"] = same[0]
            doc["replay"] = dict(kind="oracle-test", groups=groups, test=same[0].get("test"), seed=seed,
                                 note="input found by seeded search with the executable oracle of the same contract, run against the real crate")
            found = True
        else:
            doc["search"] = dict(groups=groups, seed=seed, result="no failing input found", tail=out[-1500:])
    if not found:
        doc["note"] = "no-failing-input-found: the verifier gives no counterexample for this obligation; the obligation is discharged on the pinned tree and fails on this one"
    with open(path, "w") as fo:
        json.dump(doc, fo, indent=1, default=str)
    return path, found


def rerun(pid, path, repo):
    with open(path) as f:
        doc = json.load(f)
    rp = doc.get("replay")
    print("replay of %s: obligation %s" % (path, doc.get("failed_obligation")))
    if not rp:
        print("no concrete input recorded (no-failing-input-found); re-running the check instead")
        from . import driver
        return driver.main([pid])
    work = tempfile.mkdtemp(prefix="vx-replay-")
    try:
        if rp["kind"] == "oracle-test":
            fails, out = run_oracles(rp["groups"], repo, work, rp.get("seed", 0), only=rp.get("test"))
            mine = [x for x in fails if x.get("clause") == doc["counterexample"].get("clause")]
            if mine:
                print("REPRODUCED on %s: %s" % (repo, json.dumps(mine[0])))
                print("VIOLATION property=%s replay=%s" % (pid, path))
                return 1
            print("not reproduced on %s" % repo)
            return 0
        if rp["kind"] == "kani-concrete":
            from . import kani
            grp = doc["unit"]
            res = kani.run_groups([grp], pid, repo, work, "quick", only=doc["failed_obligation"].split(":", 1)[1])
            for k in res:
                for h in k["harnesses"]:
                    if h["status"] == "FAILED":
                        print("REPRODUCED on %s: %s %s" % (repo, h["name"], json.dumps(h.get("counterexample"))))
                        print("VIOLATION property=%s replay=%s" % (pid, path))
                        return 1
            print("not reproduced on %s" % repo)
            return 0
    finally:
        shutil.rmtree(work, ignore_errors=True)
    return 2
