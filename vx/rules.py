"""Syntactic rewrite rules (DESIGN.md §3).  Each rule is a pure function on the text of one function
body: it looks for a fixed token shape and replaces it by an equivalent shape Verus accepts, carrying
every sub-expression of the original over verbatim.  Each application is logged (rule id, count).

A rule never needs to fire: if the shape is absent nothing happens and Verus sees the text as it is.
"""
import re
from .rustlex import Src
from .extract import Undecided

KEYWORDS = {"return", "let", "in", "if", "while", "match", "else", "mut", "move", "as", "for", "loop",
            "break", "continue", "ref", "where", "fn", "pub", "use", "impl", "unsafe"}


def receiver_start(s, p):
    """p = code position of the `.` that starts the method call; returns the code position where the
    receiver (a postfix chain: path, fields, calls, indexing, `?`) begins"""
    start = p
    while True:
        k = start - 1
        if k < 0:
            break
        kind, t = s.kind(k), s.txt(k)
        if kind == "close" and t in (")", "]"):
            start = s.closer(k)
            # a call/index: include the callee name; a parenthesised expression: stop here
            if start - 1 >= 0 and s.kind(start - 1) in ("ident", "close") and s.txt(start - 1) not in KEYWORDS:
                continue
            if start - 1 >= 0 and s.txt(start - 1) in (".", "::"):
                start -= 1
                continue
            break
        if t == "?":
            start = k
            continue
        if kind in ("ident", "num") and t not in KEYWORDS:
            start = k
            if start - 1 >= 0 and s.txt(start - 1) in (".", "::"):
                start -= 1
                continue
            break
        break
    if start == p:
        raise Undecided("rule: empty receiver before method call at offset %d" % s.start(p))
    return start


def _closure(s, o):
    """o = code position of `(` of a call whose single argument is a closure `|pat| body`.
    returns (pat_text, body_lo, body_hi, is_block) with body as code positions inclusive; or None"""
    c = s.closer(o)
    if not s.is_(o + 1, "|"):
        return None
    q = o + 2
    while q < c and not s.is_(q, "|"):
        if s.kind(q) == "open":
            q = s.closer(q)
        q += 1
    if q >= c:
        return None
    pat = s.slice(o + 2, q - 1) if q > o + 2 else "_"
    blo, bhi = q + 1, c - 1
    if blo > bhi:
        return None
    is_block = s.kind(blo) == "open" and s.txt(blo) == "{" and s.closer(blo) == bhi
    return pat, blo, bhi, is_block


def _has_return(s, lo, hi):
    return any(s.txt(k) == "return" and s.kind(k) == "ident" for k in range(lo, hi + 1))


def _edit(text, s, lo_pos, hi_pos, repl):
    return text[:s.start(lo_pos)] + repl + text[s.end(hi_pos):]


def _find_method(s, name, nargs_empty=False, frm=0):
    """positions p of `.` where tokens are `. name (`"""
    for p in range(frm, len(s) - 2):
        if s.txt(p) == "." and s.txt(p + 1) == name and s.kind(p + 1) == "ident" and s.is_(p + 2, "("):
            if nargs_empty and s.closer(p + 2) != p + 3:
                continue
            yield p


class Log:
    def __init__(self):
        self.hits = {}

    def hit(self, rule, n=1):
        self.hits[rule] = self.hits.get(rule, 0) + n


import threading
_tls = threading.local()   # units are assembled concurrently: the fresh-name counter is per thread


def _fresh():
    _tls.n = getattr(_tls, "n", 0) + 1
    return "vx_i%d" % _tls.n


def _fix(text, step, log, rule, limit=200):
    for _ in range(limit):
        new = step(text)
        if new is None:
            return text
        text = new
        log.hit(rule)
    raise Undecided("rule %s did not terminate" % rule)


# --- R3: Option::map / map_or with a closure -> match ---------------------------------------------
def r3_opt_map(text, log, **kw):
    def step(t):
        s = Src(t)
        for p in _find_method(s, "map"):
            cl = _closure(s, p + 2)
            if not cl:
                continue
            pat, blo, bhi, _ = cl
            if _has_return(s, blo, bhi):
                raise Undecided("R3: closure body contains `return`")
            r = receiver_start(s, p)
            recv = s.slice(r, p - 1)
            body = s.slice(blo, bhi)
            repl = "match %s { Some(%s) => Some(%s), None => None }" % (recv, pat, body)
            return _edit(t, s, r, s.closer(p + 2), repl)
        return None
    text = _fix(text, step, log, "R3")

    def step_at(t):
        s = Src(t)
        for p in _find_method(s, "and_then"):
            cl = _closure(s, p + 2)
            if not cl:
                continue
            pat, blo, bhi, _ = cl
            if _has_return(s, blo, bhi):
                raise Undecided("R3: closure body contains `return`")
            r = receiver_start(s, p)
            recv = s.slice(r, p - 1)
            body = s.slice(blo, bhi)
            repl = "match %s { Some(%s) => %s, None => None }" % (recv, pat, body)
            return _edit(t, s, r, s.closer(p + 2), repl)
        return None
    text = _fix(text, step_at, log, "R3")

    def step2(t):
        s = Src(t)
        for p in _find_method(s, "map_or"):
            o = p + 2
            c = s.closer(o)
            # first argument up to the top-level comma
            q = o + 1
            while q < c and not s.is_(q, ","):
                if s.kind(q) == "open":
                    q = s.closer(q)
                q += 1
            if q >= c or not s.is_(q + 1, "|"):
                continue
            dflt = s.slice(o + 1, q - 1)
            e = q + 2
            while e < c and not s.is_(e, "|"):
                e += 1
            pat = s.slice(q + 2, e - 1)
            body = s.slice(e + 1, c - 1)
            if _has_return(s, e + 1, c - 1):
                raise Undecided("R3: closure body contains `return`")
            r = receiver_start(s, p)
            recv = s.slice(r, p - 1)
            repl = "match %s { Some(%s) => %s, None => %s }" % (recv, pat, body, dflt)
            return _edit(t, s, r, c, repl)
        return None
    return _fix(text, step2, log, "R3")


# --- R4: for_each adapters -> for loops ---------------------------------------------------------------
def r4_for_each(text, log, **kw):
    def step(t):
        s = Src(t)
        for p in _find_method(s, "for_each"):
            cl = _closure(s, p + 2)
            if not cl:
                continue
            pat, blo, bhi, is_block = cl
            if _has_return(s, blo, bhi):
                raise Undecided("R4: closure body contains `return`")
            body = s.slice(blo, bhi)
            inner = body[1:-1] if is_block else " " + body + "; "
            end = s.closer(p + 2)
            # (A..B).for_each
            if s.kind(p - 1) == "close" and s.txt(p - 1) == ")":
                o = s.closer(p - 1)
                rng = s.slice(o + 1, p - 2)
                if ".." in [s.txt(k) for k in range(o + 1, p - 1)] and not (o - 1 >= 0 and s.kind(o - 1) == "ident" and s.txt(o - 1) not in KEYWORDS):
                    repl = "for %s in %s {%s}" % (pat, rng, inner)
                    return _edit(t, s, o, end, repl)
            # X.iter().enumerate().for_each(|(i, x)| ..)
            if s.seq(p - 8, ".", "iter", "(", ")", ".", "enumerate", "(", ")"):
                d = p - 8
                r = receiver_start(s, d)
                recv = s.slice(r, d - 1)
                ps = Src(pat)
                if not (len(ps) == 5 and ps.txt(0) == "(" and ps.txt(2) == "," and ps.txt(4) == ")"):
                    raise Undecided("R4: enumerate closure pattern %r" % pat)
                iv, xv = ps.txt(1), ps.txt(3)
                repl = "for %s in 0..%s.len() { let %s = &%s[%s];%s}" % (iv, recv, xv, recv, iv, inner)
                return _edit(t, s, r, end, repl)
            # X.iter().for_each(|x| ..)
            if s.seq(p - 4, ".", "iter", "(", ")") and not re.search(r"&\s*mut\s+%s\b" % re.escape(pat), inner) \
                    and not re.search(r"\*\s*%s\s*=[^=]" % re.escape(pat), inner):
                d = p - 4
                r = receiver_start(s, d)
                recv = s.slice(r, d - 1)
                iv = _fresh()
                repl = "for %s in 0..%s.len() { let %s = &%s[%s];\n%s\n}" % (iv, recv, pat, recv, iv, inner)
                return _edit(t, s, r, end, repl)
            # X.iter_mut().for_each(|v| ..)   (v: &mut T): every use of `*v` / `v` becomes X[i]
            # (also X.iter() whose element is written through an erased lock: `(&mut x)` after R6)
            if s.seq(p - 4, ".", "iter_mut", "(", ")") or s.seq(p - 4, ".", "iter", "(", ")"):
                d = p - 4
                r = receiver_start(s, d)
                recv = s.slice(r, d - 1)
                iv = _fresh()
                bs = Src(inner)
                out, k, last = [], 0, 0
                while k < len(bs):
                    if bs.txt(k) == pat and bs.kind(k) == "ident" and not bs.is_(k - 1, "."):
                        st = bs.start(k - 1) if bs.is_(k - 1, "*") else bs.start(k)
                        out.append(inner[last:st])
                        out.append("%s[%s]" % (recv, iv))
                        last = bs.end(k)
                    k += 1
                out.append(inner[last:])
                repl = "for %s in 0..%s.len() {\n%s\n}" % (iv, recv, "".join(out))
                return _edit(t, s, r, end, repl)
            raise Undecided("R4: unsupported for_each receiver near %r" % s.slice(max(0, p - 6), p + 1))
        return None
    return _fix(text, step, log, "R4")


# --- R6/R8: lock erasure -----------------------------------------------------------------------------
def r6_lock_erase(text, log, **kw):
    def step(t):
        s = Src(t)
        for name, ref in (("lock", "&mut "), ("write", "&mut "), ("read", "&")):
            for p in _find_method(s, name, nargs_empty=True):
                r = receiver_start(s, p)
                recv = s.slice(r, p - 1)
                follow_dot = s.is_(p + 4, ".")
                repl = "(%s%s)" % (ref, recv) if follow_dot or not s.is_(r - 1, "=") else "%s%s" % (ref, recv)
                return _edit(t, s, r, p + 3, repl)
        return None
    return _fix(text, step, log, "R6")


# --- R10: atomic-under-lock ------------------------------------------------------------------------
def r10_atomic(text, log, **kw):
    def step(t):
        s = Src(t)
        for p in _find_method(s, "load"):
            c = s.closer(p + 2)
            if s.seq(p + 3, "Ordering", "::") and c == p + 6:
                r = receiver_start(s, p)
                # a bare identifier is a reference to the atomic (closure parameter / pattern binding): read through it
                return _edit(t, s, r, c, ("*" if r == p - 1 and s.kind(r) == "ident" and s.txt(r) != "self" else "") + s.slice(r, p - 1))
        for p in _find_method(s, "store"):
            c = s.closer(p + 2)
            if s.seq(c - 3, "Ordering", "::") and s.is_(c - 4, ","):
                r = receiver_start(s, p)
                val = s.slice(p + 3, c - 5)
                return _edit(t, s, r, c, "%s%s = %s" % ("*" if r == p - 1 and s.kind(r) == "ident" and s.txt(r) != "self" else "", s.slice(r, p - 1), val))
        for p in _find_method(s, "fetch_add"):
            # `x.fetch_add(d, Ordering::_);` as a statement of its own (result unused): x = x.wrapping_add(d)
            c = s.closer(p + 2)
            if s.seq(c - 3, "Ordering", "::") and s.is_(c - 4, ","):
                r = receiver_start(s, p)
                if not s.is_(c + 1, ";") or (r > 0 and s.txt(r - 1) not in (";", "{", "}")):
                    raise Undecided("R10: fetch_add whose result is used")
                recv = s.slice(r, p - 1)
                return _edit(t, s, r, c, "%s = %s.wrapping_add(%s)" % (recv, recv, s.slice(p + 3, c - 5)))
        for name, tmpl in (("fetch_sub", "%(r)s = %(r)s.wrapping_sub(%(v)s)"), ("fetch_max", "if %(v)s > %(r)s { %(r)s = %(v)s; }"),
                           ("fetch_min", "if %(v)s < %(r)s { %(r)s = %(v)s; }")):
            for p in _find_method(s, name):
                c = s.closer(p + 2)
                if s.seq(c - 3, "Ordering", "::") and s.is_(c - 4, ","):
                    r = receiver_start(s, p)
                    if not s.is_(c + 1, ";") or (r > 0 and s.txt(r - 1) not in (";", "{", "}")):
                        raise Undecided("R10: %s whose result is used" % name)
                    return _edit(t, s, r, c, tmpl % dict(r=s.slice(r, p - 1), v="(" + s.slice(p + 3, c - 5) + ")"))
        return None
    return _fix(text, step, log, "R10")


# --- R8n: constructors of the wrappers that R6/R8/R10 erase: Arc::new(E), Mutex::new(E), RwLock::new(E), Box::new(E),
#          AtomicI64::new(E), AtomicBool::new(E), AtomicU64::new(E)  ->  (E)      (on request) --------------------------
def r8_wrapper_new(text, log, **kw):
    def step(t):
        s = Src(t)
        for p in range(len(s) - 4):
            if s.kind(p) == "ident" and s.txt(p) in ("Arc", "Mutex", "RwLock", "Box", "AtomicI64", "AtomicBool", "AtomicU64") \
                    and s.is_(p + 1, "::") and s.is_(p + 2, "new") and s.is_(p + 3, "(") and not s.is_(p - 1, "::"):
                c = s.closer(p + 3)
                inner = s.slice(p + 4, c - 1)
                return _edit(t, s, p, c, "(%s)" % inner)
        return None
    return _fix(text, step, log, "R8")


# --- R12: `v.drain(n..);` as a statement == truncate(n) ---------------------------------------------
def r12_drain(text, log, **kw):
    def step(t):
        s = Src(t)
        for p in _find_method(s, "drain"):
            c = s.closer(p + 2)
            if s.is_(c - 1, "..") and s.is_(c + 1, ";"):
                r = receiver_start(s, p)
                if r - 1 >= 0 and s.txt(r - 1) not in (";", "{", "}"):
                    continue
                return _edit(t, s, p + 1, c, "truncate(%s)" % s.slice(p + 3, c - 2))
        return None
    return _fix(text, step, log, "R12")


# --- R11: type ascription on a `let` --------------------------------------------------------------------
def r11_ascribe(text, log, var=None, ty=None, **kw):
    s = Src(text)
    for p in range(len(s) - 2):
        if s.txt(p) == "let":
            q = p + 1
            if s.is_(q, "mut"):
                q += 1
            if s.txt(q) == var and s.is_(q + 1, "="):
                log.hit("R11")
                return text[:s.end(q)] + ": " + ty + text[s.end(q):]
    return text


# --- R5: delegating Index/IndexMut on a newtype:  self[e] -> self.0[e] ----------------------------------
def r5_self_index(text, log, field="0", **kw):
    def step(t):
        s = Src(t)
        for p in range(len(s) - 1):
            if s.txt(p) == "self" and s.is_(p + 1, "[") and not s.is_(p - 1, "."):
                return t[:s.end(p)] + "." + field + t[s.end(p):]
        return None
    return _fix(text, step, log, "R5")


# --- generic literal token-sequence replacement (used for R7/R9-style renamings, always listed) -------
def tok_replace(text, log, rule="RX", frm=None, to=None, **kw):
    from .rustlex import lex
    want = [t[1] for t in lex(frm) if t[0] not in ("ws", "comment")]
    s = Src(text)
    hits, p = [], 0
    while p <= len(s) - len(want):
        if s.seq(p, *want):
            hits.append(p)
            p += len(want)
        else:
            p += 1
    for p in reversed(hits):
        text = text[:s.start(p)] + to + text[s.end(p + len(want) - 1):]
        log.hit(rule)
    return text


# --- RS: replace one whole statement, found by its leading tokens, by a trusted stand-in (always listed) ----
def rs_stmt_replace(text, log, prefix=None, to="", rule="RS", to_end=None, **kw):
    want = [x[1] for x in Src(prefix).toks if x[0] not in ("ws", "comment")]
    s = Src(text)
    for p in range(len(s) - len(want) + 1):
        if s.seq(p, *want) and (p == 0 or s.txt(p - 1) in (";", "{", "}")):
            q = p
            while q < len(s) and s.txt(q) != ";":
                if s.kind(q) == "open":
                    q = s.closer(q)
                q += 1
            if to_end:
                # everything from this statement to the end of the body is replaced (trusted tail)
                log.hit(rule)
                return text[:s.start(p)] + to + "\n"
            if q >= len(s):
                raise Undecided("RS: statement `%s` has no terminator" % prefix)
            log.hit(rule)
            return text[:s.start(p)] + to + text[s.end(q):]
    return text


# --- R12v: the unsafe tail that packages (lock guard, extended-lifetime reference) into ValueRef/ValueRefMut --
def r12_valueref(text, log, **kw):
    s = Src(text)
    for p in range(len(s) - 1):
        if s.txt(p) == "unsafe" and s.is_(p + 1, "{"):
            c = s.closer(p + 1)
            inner = [s.txt(k) for k in range(p + 2, c)]
            if ("ValueRef" in inner or "ValueRefMut" in inner) and "item" in inner and "Some" in inner:
                log.hit("R12")
                # the packaged value is handed out as a snapshot (`vx_snapshot`, a trusted `r == *x`), not as a reference into
                # the shard: a reference would tie the shard's borrow to the return value on every path and make rustc reject
                # bodies the real code (raw pointer + guard) is allowed to have
                return text[:s.start(p)] + "Some(vx_snapshot(item))" + text[s.end(c):]
    return text


# --- R3e: Result::map_err with a closure -> match (definition of map_err) ----------------------------------------
def r3_map_err(text, log, **kw):
    def step(t):
        s = Src(t)
        for p in _find_method(s, "map_err"):
            cl = _closure(s, p + 2)
            if not cl:
                continue
            pat, blo, bhi, _ = cl
            if _has_return(s, blo, bhi):
                raise Undecided("R3: closure body contains `return`")
            r = receiver_start(s, p)
            recv = s.slice(r, p - 1)
            body = s.slice(blo, bhi)
            repl = "(match %s { Ok(vx_ok) => Ok(vx_ok), Err(%s) => Err(%s) })" % (recv, pat, body)
            return _edit(t, s, r, s.closer(p + 2), repl)
        return None
    return _fix(text, step, log, "R3")


# --- RF: `format!(..)` only builds error texts here; replaced by an opaque String (always listed) ------------------
def rf_format(text, log, **kw):
    def step(t):
        s = Src(t)
        for p in range(len(s) - 2):
            if s.txt(p) == "format" and s.is_(p + 1, "!") and s.kind(p + 2) == "open":
                return _edit(t, s, p, s.closer(p + 2), "vx_error_text()")
        return None
    return _fix(text, step, log, "RF")


# --- RA: await erasure: `.await` is dropped, the future's body runs as a sequential call (interleavings at await
# --- points are NOT modelled; listed as an assumption wherever it fires) ---------------------------------------
def ra_await(text, log, **kw):
    def step(t):
        s = Src(t)
        for p in range(len(s) - 1):
            if s.txt(p) == "." and s.txt(p + 1) == "await" and not s.is_(p + 2, "("):
                return _edit(t, s, p, p + 1, "")
        return None
    return _fix(text, step, log, "RA")


# --- R3o: `res.map(|p| B).ok()` — the `.ok()` tells the receiver is a Result -----------------------------------
def r3_result_map_ok(text, log, **kw):
    def step(t):
        s = Src(t)
        for p in _find_method(s, "map"):
            c = s.closer(p + 2)
            if not (s.is_(c + 1, ".") and s.is_(c + 2, "ok") and s.is_(c + 3, "(") and s.closer(c + 3) == c + 4):
                continue
            cl = _closure(s, p + 2)
            if not cl:
                continue
            pat, blo, bhi, _ = cl
            if _has_return(s, blo, bhi):
                raise Undecided("R3: closure body contains `return`")
            r = receiver_start(s, p)
            recv = s.slice(r, p - 1)
            body = s.slice(blo, bhi)
            repl = "(match %s { Ok(%s) => Some(%s), Err(_) => None })" % (recv, pat, body)
            return _edit(t, s, r, c + 4, repl)
        return None
    return _fix(text, step, log, "R3")


# --- R3f: Option<Option<T>>::flatten -> match ---------------------------------------------------------------
def r3_flatten(text, log, **kw):
    def step(t):
        s = Src(t)
        for p in _find_method(s, "flatten", nargs_empty=True):
            r = receiver_start(s, p)
            recv = s.slice(r, p - 1)
            repl = "(match (%s) { Some(vx_inner) => vx_inner, None => None })" % recv
            return _edit(t, s, r, p + 3, repl)
        return None
    return _fix(text, step, log, "R3")


# --- R4f: `it.filter_map(|p| B).collect()` -> loop pushing the Some results ---------------------------------------
def r4_filter_map_collect(text, log, out="vx_out", **kw):
    def step(t):
        s = Src(t)
        for p in _find_method(s, "filter_map"):
            c = s.closer(p + 2)
            if not (s.is_(c + 1, ".") and s.is_(c + 2, "collect") and s.is_(c + 3, "(") and s.closer(c + 3) == c + 4):
                continue
            cl = _closure(s, p + 2)
            if not cl:
                continue
            pat, blo, bhi, _ = cl
            if _has_return(s, blo, bhi):
                raise Undecided("R4: closure body contains `return`")
            r = receiver_start(s, p)
            recv = s.slice(r, p - 1)
            body = s.slice(blo, bhi)
            repl = ("{ let mut %s = Vec::new();\nfor %s in %s {\nmatch %s { Some(vx_some) => { %s.push(vx_some); } None => {} }\n}\n%s }"
                    % (out, pat, recv, body, out, out))
            return _edit(t, s, r, c + 4, repl)
        return None
    return _fix(text, step, log, "R4")


# --- R3r: Result adapters with closures (on request, when the receiver is a Result) -----------------------------------
def r3_result(text, log, **kw):
    def step(t):
        s = Src(t)
        for name in ("map_err", "and_then", "map"):
            for p in _find_method(s, name):
                cl = _closure(s, p + 2)
                if not cl:
                    continue
                pat, blo, bhi, _ = cl
                if _has_return(s, blo, bhi):
                    raise Undecided("R3: closure body contains `return`")
                r = receiver_start(s, p)
                recv = s.slice(r, p - 1)
                body = s.slice(blo, bhi)
                if name == "map_err":
                    repl = "(match %s { Ok(vx_ok) => Ok(vx_ok), Err(%s) => Err(%s) })" % (recv, pat, body)
                elif name == "and_then":
                    repl = "(match %s { Ok(%s) => %s, Err(vx_err) => Err(vx_err) })" % (recv, pat, body)
                else:
                    repl = "(match %s { Ok(%s) => Ok(%s), Err(vx_err) => Err(vx_err) })" % (recv, pat, body)
                return _edit(t, s, r, s.closer(p + 2), repl)
        return None
    return _fix(text, step, log, "R3")


# --- R4i: `x.into_iter().for_each(|p| B)` -> `for p in x { B }` -----------------------------------------------------
def r4_into_iter_for_each(text, log, bind=None, **kw):
    """bind=<name>: the receiver expression (e.g. `self.f()?`) is first bound to a local of that name — only where the whole
    `recv.into_iter().for_each(..)` is a statement of its own (evaluation order unchanged: the receiver is evaluated once,
    before the first iteration, exactly as `into_iter()` does)"""
    def step(t):
        s = Src(t)
        for p in _find_method(s, "for_each"):
            if not s.seq(p - 4, ".", "into_iter", "(", ")"):
                continue
            cl = _closure(s, p + 2)
            if not cl:
                continue
            pat, blo, bhi, is_block = cl
            if _has_return(s, blo, bhi):
                raise Undecided("R4: closure body contains `return`")
            body = s.slice(blo, bhi)
            inner = body[1:-1] if is_block else " " + body + "; "
            d = p - 4
            r = receiver_start(s, d)
            recv = s.slice(r, d - 1)
            if bind:
                if r > 0 and s.txt(r - 1) not in (";", "{", "}"):
                    raise Undecided("R4i bind=: the for_each is not a statement of its own")
                return _edit(t, s, r, s.closer(p + 2), "let %s = %s;\nfor %s in %s {\n%s\n}" % (bind, recv, pat, bind, inner))
            return _edit(t, s, r, s.closer(p + 2), "for %s in %s {\n%s\n}" % (pat, recv, inner))
        return None
    return _fix(text, step, log, "R4")


# --- R13: crossbeam `select! { send(TX, ITEM) -> RES => A, default => B }` -> match on a modelled non-blocking send ----
def r13_select_send(text, log, **kw):
    s = Src(text)
    for p in range(len(s) - 2):
        if s.txt(p) == "select" and s.is_(p + 1, "!") and s.kind(p + 2) == "open":
            o = p + 2
            c = s.closer(o)
            # futures flavour:  RES = TX.send(ITEM).fuse() => BODY1 , default => BODY2
            if s.kind(o + 1) == "ident" and s.is_(o + 2, "="):
                resname = s.txt(o + 1)
                q = o + 3
                while q < c and not s.is_(q, "=>"):
                    if s.kind(q) == "open":
                        q = s.closer(q)
                    q += 1
                fut = Src(s.slice(o + 3, q - 1))
                sp = [k for k in range(len(fut) - 1) if fut.txt(k) == "." and fut.txt(k + 1) == "send" and fut.is_(k + 2, "(")]
                if not sp or q >= c:
                    raise Undecided("R13: futures select! arm shape")
                k = sp[0]
                tx = fut.slice(0, k - 1)
                item = fut.slice(k + 3, fut.closer(k + 2) - 1)
                b1 = q + 1
                e1 = b1
                while e1 < c and not (s.is_(e1, ",") and s.is_(e1 + 1, "default")):
                    if s.kind(e1) == "open":
                        e1 = s.closer(e1)
                    e1 += 1
                if e1 >= c or not s.is_(e1 + 2, "=>"):
                    raise Undecided("R13: futures select! default arm expected")
                b2 = e1 + 3
                b2c = s.closer(b2) if s.kind(b2) == "open" else c - 1
                repl = "match (%s).vx_select_send(%s) { SelectSend::Completed(%s) => %s, SelectSend::WouldBlock(%s) => %s }" % (
                    tx, item, resname, s.slice(b1, e1 - 1), item, s.slice(b2, b2c))
                log.hit("R13")
                return text[:s.start(p)] + repl + text[s.end(c):]
            # send ( TX , ITEM ) -> RES => BODY1 , default => BODY2
            if not (s.is_(o + 1, "send") and s.is_(o + 2, "(")):
                raise Undecided("R13: select! arm shape")
            sc = s.closer(o + 2)
            from .extract import _split_top
            args = _split_top(s, o + 3, sc)
            if len(args) != 2 or not s.is_(sc + 1, "->") or not s.is_(sc + 3, "=>"):
                raise Undecided("R13: select! send arm shape")
            resname = s.txt(sc + 2)
            b1 = sc + 4
            if s.kind(b1) == "open" and s.txt(b1) == "{":
                b1c = s.closer(b1)
                q = b1c + 1
                if s.is_(q, ","):
                    q += 1
            else:
                # expression arm: runs to the top-level comma before `default`
                q = b1
                while q < c and not (s.is_(q, ",") and s.is_(q + 1, "default")):
                    if s.kind(q) == "open":
                        q = s.closer(q)
                    q += 1
                if q >= c:
                    raise Undecided("R13: select! send arm has no terminating comma")
                b1c = q - 1
                q += 1
            if not (s.is_(q, "default") and s.is_(q + 1, "=>")):
                raise Undecided("R13: select! default arm expected")
            b2 = q + 2
            if not (s.kind(b2) == "open" and s.txt(b2) == "{"):
                raise Undecided("R13: select! default arm body must be a block")
            b2c = s.closer(b2)
            item = args[1].strip()
            repl = "match (%s).vx_select_send(%s) { SelectSend::Completed(%s) => %s, SelectSend::WouldBlock(%s) => %s }" % (
                args[0].strip(), item, resname, s.slice(b1, b1c), item, s.slice(b2, b2c))
            log.hit("R13")
            return text[:s.start(p)] + repl + text[s.end(c):]
    return text


# --- R3m: Result::map_or_else(|e| A, |v| B) -> match ---------------------------------------------------------------
def r3_map_or_else(text, log, **kw):
    def step(t):
        s = Src(t)
        for p in _find_method(s, "map_or_else"):
            o = p + 2
            c = s.closer(o)
            if not s.is_(o + 1, "|"):
                continue
            # first closure: |pat| body up to the top-level comma
            q = o + 2
            while not s.is_(q, "|"):
                q += 1
            pat1 = s.slice(o + 2, q - 1)
            k = q + 1
            while k < c and not s.is_(k, ","):
                if s.kind(k) == "open":
                    k = s.closer(k)
                k += 1
            body1 = s.slice(q + 1, k - 1)
            if not s.is_(k + 1, "|"):
                continue
            q2 = k + 2
            while not s.is_(q2, "|"):
                q2 += 1
            pat2 = s.slice(k + 2, q2 - 1)
            e2 = c - 1
            if s.is_(e2, ","):
                e2 -= 1
            body2 = s.slice(q2 + 1, e2)
            r = receiver_start(s, p)
            recv = s.slice(r, p - 1)
            repl = "(match %s { Ok(%s) => %s, Err(%s) => %s })" % (recv, pat2, body2, pat1, body1)
            return _edit(t, s, r, c, repl)
        return None
    return _fix(text, step, log, "R3")


# --- R4s: `x.iter().map(|p| E).sum()` -> accumulating loop ------------------------------------------------------------
def r4_map_sum(text, log, acc="vx_sum", **kw):
    def step(t):
        s = Src(t)
        for p in _find_method(s, "map"):
            c = s.closer(p + 2)
            if not (s.seq(p - 4, ".", "iter", "(", ")") and s.is_(c + 1, ".") and s.is_(c + 2, "sum") and s.is_(c + 3, "(") and s.closer(c + 3) == c + 4):
                continue
            cl = _closure(s, p + 2)
            if not cl:
                continue
            pat, blo, bhi, _ = cl
            d = p - 4
            r = receiver_start(s, d)
            recv = s.slice(r, d - 1)
            body = s.slice(blo, bhi)
            iv = _fresh()
            repl = "{ let mut %s = 0;\nfor %s in 0..%s.len() { let %s = &%s[%s];\n%s += %s;\n}\n%s }" % (acc, iv, recv, pat, recv, iv, acc, body, acc)
            return _edit(t, s, r, c + 4, repl)
        return None
    return _fix(text, step, log, "R4")


RULES = {
    "R4s": r4_map_sum,
    "R13": r13_select_send,
    "R3m": r3_map_or_else,
    "R3o": r3_result_map_ok,
    "R3f": r3_flatten,
    "R4f": r4_filter_map_collect,
    "R3r": r3_result,
    "R4i": r4_into_iter_for_each,
    "RA": ra_await,
    "R3e": r3_map_err,
    "RF": rf_format,
    "R12v": r12_valueref,
    "R8n": r8_wrapper_new,
    "RS": rs_stmt_replace,
    "R3": r3_opt_map,
    "R4": r4_for_each,
    "R5": r5_self_index,
    "R6": r6_lock_erase,
    "R10": r10_atomic,
    "R11": r11_ascribe,
    "R12": r12_drain,
    "RX": tok_replace,
}

DEFAULT_ORDER = ["RA", "R6", "R10", "R12", "R4", "R3"]


def apply_rules(body, extra=()):
    """apply the default rules then unit-specific configured ones; returns (text, hits)"""
    log = Log()
    text = body
    _tls.n = 0
    off = set(name[1:] for name, kw in extra if name.startswith("-"))     # `//@ rule: -R10` switches a default rule off
    extra = [(name, kw) for name, kw in extra if not name.startswith("-")]
    for name, kw in extra:
        if kw.get("when") == "first":
            text = RULES[name](text, log, **{k: v for k, v in kw.items() if k != "when"})
    for name in DEFAULT_ORDER:
        if name not in off:
            text = RULES[name](text, log)
    for name, kw in extra:
        if kw.get("when") != "first":
            text = RULES[name](text, log, **kw)
    return text, log.hits
