"""Minimal Rust lexer + delimiter matching, enough to cut functions out of real
source files and rewrite a fixed set of syntactic shapes.  No semantic analysis.

Token = (kind, text, start, end)   kinds: ws comment ident lifetime num str char punct open close
"""
import re

PUNCT3 = ("<<=", ">>=", "...", "..=")
PUNCT2 = ("::", "->", "=>", "==", "!=", "<=", ">=", "&&", "||", "+=", "-=", "*=", "/=", "%=",
          "^=", "&=", "|=", "<<", ">>", "..")

_ident_re = re.compile(r"[A-Za-z_][A-Za-z0-9_]*")
_num_re = re.compile(r"[0-9][0-9A-Za-z_]*(\.[0-9][0-9A-Za-z_]*)?")


class LexError(Exception):
    pass


def lex(src):
    toks = []
    i, n = 0, len(src)
    while i < n:
        c = src[i]
        if c.isspace():
            j = i
            while j < n and src[j].isspace():
                j += 1
            toks.append(("ws", src[i:j], i, j))
            i = j
        elif src.startswith("//", i):
            j = src.find("\n", i)
            if j < 0:
                j = n
            toks.append(("comment", src[i:j], i, j))
            i = j
        elif src.startswith("/*", i):
            depth, j = 1, i + 2
            while j < n and depth:
                if src.startswith("/*", j):
                    depth += 1
                    j += 2
                elif src.startswith("*/", j):
                    depth -= 1
                    j += 2
                else:
                    j += 1
            toks.append(("comment", src[i:j], i, j))
            i = j
        elif c == '"' or (c in "br" and re.match(r'(b?r#*"|b")', src[i:i + 12])):
            m = re.match(r'b?r(#*)"', src[i:])
            if m:
                close = '"' + m.group(1)
                j = src.find(close, i + m.end())
                if j < 0:
                    raise LexError("unterminated raw string at %d" % i)
                j += len(close)
            else:
                j = i + (2 if c == "b" else 1)
                while j < n and src[j] != '"':
                    j += 2 if src[j] == "\\" else 1
                j += 1
            toks.append(("str", src[i:j], i, j))
            i = j
        elif c == "'" or (c == "b" and src.startswith("b'", i)):
            k = i + (1 if c == "b" else 0)
            # char literal or lifetime
            m = re.match(r"'(\\.[^']*|[^'\\])'", src[k:])
            if m:
                j = k + m.end()
                toks.append(("char", src[i:j], i, j))
            else:
                m = _ident_re.match(src, k + 1)
                if not m:
                    raise LexError("bad quote at %d" % i)
                j = m.end()
                toks.append(("lifetime", src[i:j], i, j))
            i = j
        elif c.isalpha() or c == "_":
            m = _ident_re.match(src, i)
            j = m.end()
            if src.startswith("r#", i) and _ident_re.match(src, i + 2):
                j = _ident_re.match(src, i + 2).end()
            toks.append(("ident", src[i:j], i, j))
            i = j
        elif c.isdigit():
            m = _num_re.match(src, i)
            j = m.end()
            # don't swallow a range `0..n` or a method call `1.max(..)`
            txt = src[i:j]
            if "." in txt:
                dot = txt.index(".")
                if not txt[dot + 1:dot + 2].isdigit():
                    j = i + dot
            toks.append(("num", src[i:j], i, j))
            i = j
        elif c in "([{":
            toks.append(("open", c, i, i + 1))
            i += 1
        elif c in ")]}":
            toks.append(("close", c, i, i + 1))
            i += 1
        else:
            for p in PUNCT3 + PUNCT2:
                if src.startswith(p, i):
                    toks.append(("punct", p, i, i + len(p)))
                    i += len(p)
                    break
            else:
                toks.append(("punct", c, i, i + 1))
                i += 1
    return toks


def code_tokens(toks):
    """indices of tokens that are neither whitespace nor comments"""
    return [k for k, t in enumerate(toks) if t[0] not in ("ws", "comment")]


_PAIR = {"(": ")", "[": "]", "{": "}"}


def match_delims(toks):
    """dict open_index -> close_index and back (indices into toks)"""
    stack, m = [], {}
    for k, t in enumerate(toks):
        if t[0] == "open":
            stack.append(k)
        elif t[0] == "close":
            if not stack:
                raise LexError("unbalanced close %r at %d" % (t[1], t[2]))
            o = stack.pop()
            if _PAIR[toks[o][1]] != t[1]:
                raise LexError("mismatched %r/%r at %d" % (toks[o][1], t[1], t[2]))
            m[o] = k
            m[k] = o
    if stack:
        raise LexError("unbalanced open at %d" % toks[stack[-1]][2])
    return m


class Src:
    """A lexed source text with helpers that work on *code* token positions."""

    def __init__(self, text):
        self.text = text
        self.toks = lex(text)
        self.code = code_tokens(self.toks)       # code position -> token index
        self.match = match_delims(self.toks)     # token index -> token index
        self.pos_of = {ti: p for p, ti in enumerate(self.code)}

    def __len__(self):
        return len(self.code)

    def tok(self, p):
        return self.toks[self.code[p]]

    def kind(self, p):
        return self.tok(p)[0]

    def txt(self, p):
        return self.tok(p)[1]

    def start(self, p):
        return self.tok(p)[2]

    def end(self, p):
        return self.tok(p)[3]

    def closer(self, p):
        """code position of the delimiter matching the one at code position p"""
        return self.pos_of[self.match[self.code[p]]]

    def is_(self, p, *texts):
        return 0 <= p < len(self.code) and self.txt(p) in texts

    def seq(self, p, *texts):
        """do the code tokens starting at p spell `texts`?"""
        if p < 0 or p + len(texts) > len(self.code):
            return False
        return all(self.txt(p + k) == t for k, t in enumerate(texts))

    def slice(self, p, q):
        """source text from start of code token p to end of code token q (inclusive)"""
        return self.text[self.start(p):self.end(q)]

    def line_of(self, offset):
        return self.text.count("\n", 0, offset) + 1


def norm(s):
    """whitespace-insensitive normal form used to compare signatures / field lists"""
    return " ".join(t[1] for t in lex(s) if t[0] not in ("ws", "comment"))
