"""Assemble a Verus unit file from a template (units/*.vrs) and the real sources in /repo.

Template = ordinary Verus text (prelude types, ghost theory, impl headers — none of it executable
code taken from /repo) plus `//@` directives that pull real items in:

  //@include <path relative to /verif>
  //@const <file> <NAME>
  //@expect-struct <file> <Name> <field: type, ...>        (shape check, emits nothing)
  //@expect-enum <file> <Name> <Variant, ...>              (shape check)
  //@expect-body <file> <Type::fn> <normalised body text>  (shape check for one-line delegations)
  //@extract <file> <Type::fn | fn> [macro=m] [subst=a:B,c:D] [nth=n] [trait=T] [rename=new]
  //@ props: C01 C07
  //@ attr: #[verifier::loop_isolation(false)]
  //@ sig: pub fn f(&mut self, ...) -> (res: T)
  //@ rule: R11 var=sample ty=Vec<PolicyPair>
  //@ requires:
  //@   <clause>,
  //@ ensures:
  //@   [C01:a] <clause>,
  //@ loop 1 [binder=it]:
  //@   invariant
  //@     [C07:inv.sample] <clause>,
  //@   decreases <expr>,
  //@ entry:
  //@   <proof statements>
  //@ before /regex/ [#n]:          (proof block inserted before the n-th body line matching regex)
  //@   <proof statements>
  //@ after /regex/ [#n]:
  //@   <proof statements>
  //@end
"""
import re
import shlex
from .extract import find_fn, find_struct, find_const, find_enum, Undecided
from .rustlex import Src, norm
from .rules import apply_rules

LABEL = re.compile(r"^\[([A-Za-z0-9_,+]+):([A-Za-z0-9_.\-]+)\]\s*(.*)$")


class Origin:
    __slots__ = ("fn", "kind", "label", "props", "src", "text")

    def __init__(self, fn=None, kind="template", label=None, props=(), src=None, text=None):
        self.fn, self.kind, self.label, self.props, self.src, self.text = fn, kind, label, tuple(props), src, text


class Assembled:
    def __init__(self):
        self.lines = []          # output lines
        self.origin = []         # Origin per line
        self.fns = {}            # name -> dict(props, file, line, rules, obligations)
        self.rule_hits = {}
        self.shape_checks = []
        self.proof_fns = 0
        self.canaries = []
        self.notes = []

    def emit(self, text, origin):
        for ln in text.split("\n"):
            self.lines.append(ln)
            self.origin.append(origin)

    def text(self):
        return "\n".join(self.lines) + "\n"

    def obligations(self):
        """list of (fn, label, props, kind, text)"""
        out = []
        for name, f in self.fns.items():
            for (label, props, kind, text) in f["clauses"]:
                out.append((name, label, props, kind, text))
            out.append((name, "safety", tuple(f["props"]), "safety",
                        "no arithmetic overflow / index out of bounds / failed callee precondition / failed assert in " + name))
        return out


def _parse_kv(parts):
    kw = {}
    for p in parts:
        if "=" in p:
            k, v = p.split("=", 1)
            kw[k] = v
    return kw


def _read_block(lines, i):
    """lines[i] is the `//@extract` line; returns (spec dict, next index)"""
    head = shlex.split(lines[i][len("//@extract"):].strip())
    spec = dict(file=head[0], item=head[1], kw=_parse_kv(head[2:]), props=[], attrs=[], sig=None, rules=[],
                requires=[], ensures=[], loops={}, entry=[], anchors=[], line=i + 1)
    cur = None
    i += 1
    while i < len(lines):
        ln = lines[i]
        if ln.strip() == "//@end":
            return spec, i + 1
        if not ln.lstrip().startswith("//@"):
            raise Undecided("template: line %d inside //@extract block is not a //@ line" % (i + 1))
        body = ln.lstrip()[3:]
        st = body.strip()
        m = re.match(r"^ (props|attr|sig-free|sig|rule|requires|ensures|entry|at-exits|loop-start|loop-end|before-loop|after-loop|before-call|after-call|loop|before|after)\b(.*?):\s?(.*)$", body)
        if m and not body.startswith("   "):
            key, arg, rest = m.group(1), m.group(2).strip(), m.group(3)
            if key == "props":
                spec["props"] = rest.split()
            elif key == "attr":
                spec["attrs"].append(rest)
            elif key == "sig":
                spec["sig"] = rest.strip()
            elif key == "sig-free":
                spec["sigfree"] = rest.split()
            elif key == "rule":
                parts = shlex.split(rest)
                spec["rules"].append((parts[0], _parse_kv(parts[1:])))
            elif key in ("requires", "ensures", "entry"):
                cur = spec[key]
                if rest.strip():
                    cur.append(rest)
            elif key == "loop":
                a = arg.split()
                n = int(a[0])
                opts = _parse_kv(a[1:])
                cur = []
                spec["loops"][n] = dict(lines=cur, opts=opts)
            elif key == "at-exits":
                cur = []
                spec["anchors"].append(dict(where="at-exits", lines=cur))
            elif key in ("after-loop", "before-loop", "loop-start", "loop-end"):
                cur = []
                spec["anchors"].append(dict(where=key, n=int(arg.split()[0]), lines=cur))
            elif key in ("before-call", "after-call"):
                a = arg.split()
                nth = 1
                for x in a[1:]:
                    if x.startswith("#"):
                        nth = int(x[1:])
                cur = []
                spec["anchors"].append(dict(where=key, call=a[0], nth=nth, lines=cur))
            elif key in ("before", "after"):
                mm = re.match(r"^/(.*)/\s*(#(\d+))?$", arg)
                if not mm:
                    raise Undecided("template: bad anchor %r at line %d" % (arg, i + 1))
                cur = []
                spec["anchors"].append(dict(where=key, regex=mm.group(1), nth=int(mm.group(3) or 1), lines=cur))
        else:
            if cur is None:
                raise Undecided("template: stray line %d" % (i + 1))
            cur.append(body[1:] if body.startswith(" ") else body)
        i += 1
    raise Undecided("template: unterminated //@extract at line %d" % spec["line"])


def _check_sig(real, override, name, free=()):
    """the override must keep every real non-self parameter (name: type) in order and the return type"""
    so = Src(override)
    # locate param list of override
    p = 0
    while p < len(so) and so.txt(p) != "fn":
        p += 1
    q = p + 2
    if so.is_(q, "<"):
        from .extract import _skip_generics
        q = _skip_generics(so, q)
    pc = so.closer(q)
    from .extract import _split_top
    oparams = [norm(x) for x in _split_top(so, q + 1, pc)]
    rparams = [norm(x) for x in real.sig_parts["params"]]
    k = 0
    for rp in rparams:
        if rp in ("& self", "& mut self", "self", "mut self"):
            continue
        if rp.split(" : ")[0].replace("mut ", "") in free:
            # R9/R12: this parameter's type is replaced by its model type (listed in the evidence)
            continue
        while k < len(oparams) and oparams[k] != rp and oparams[k] != "mut " + rp:
            k += 1
        if k >= len(oparams):
            raise Undecided("signature drift in %s: real parameter `%s` not in contract signature" % (name, rp))
        k += 1
    rret = real.sig_parts["ret"]
    rest = so.slice(pc + 1, len(so) - 1) if pc + 1 < len(so) else ""
    if "return" in free:
        return
    if rret:
        want = norm(rret)
        got = norm(rest)
        if want not in got:
            raise Undecided("signature drift in %s: real return type `%s` not in contract signature `%s`" % (name, want, got))
    elif "->" in rest:
        raise Undecided("signature drift in %s: contract has a return type, real fn has none" % name)


def _label(ln, default_props):
    st = ln.strip()
    m = LABEL.match(st)
    if m:
        props = tuple(x for x in re.split(r"[,+]", m.group(1)) if x)
        return "%s:%s" % (m.group(1), m.group(2)), props, m.group(3), ln[:len(ln) - len(ln.lstrip())]
    return None, tuple(default_props), st, ln[:len(ln) - len(ln.lstrip())]


def _emit_clauses(out, fn, kind, lines, props, clauses, canary=False):
    cur_label, cur_props = None, tuple(props)
    for ln in lines:
        label, lprops, text, ind = _label(ln, props)
        if label:
            cur_label, cur_props = label, lprops
            clauses.append([label, lprops, kind, text])
        elif cur_label and kind != "requires" and text and clauses and not re.match(r"^(invariant|invariant_except_break|ensures|decreases)\b", text):
            clauses[-1][3] += " " + text
        if re.match(r"^(invariant|invariant_except_break|ensures|decreases)\b", text):
            cur_label = None
        out.emit("        " + ind + text, Origin(fn, kind, cur_label if (label or cur_label) else None, cur_props, text=text))


def _loops(s):
    """code positions of loop keywords in source order, with the position of their body brace"""
    res = []
    for p in range(len(s)):
        if s.kind(p) == "ident" and s.txt(p) in ("while", "for", "loop") and not s.is_(p - 1, "."):
            if s.txt(p) == "for" and s.is_(p + 1, "<"):
                continue
            q = p + 1
            while q < len(s) and not (s.kind(q) == "open" and s.txt(q) == "{"):
                if s.kind(q) == "open":
                    q = s.closer(q)
                q += 1
            if q >= len(s):
                raise Undecided("loop without body")
            res.append((p, q))
    return res


def _enclosing_block(s, p):
    """code position of the `{` of the innermost brace block containing code position p (or -1)"""
    depth = 0
    q = p - 1
    while q >= 0:
        if s.kind(q) == "close":
            q = s.closer(q) - 1
            continue
        if s.kind(q) == "open":
            if s.txt(q) == "{":
                return q
        q -= 1
    return -1


def _stmt_start(s, p):
    """first code position of the statement (at block level) that contains code position p"""
    blk = _enclosing_block(s, p)
    # a `{` that belongs to a struct literal / match arm value / closure is not a statement block: keep climbing
    q = p
    start = blk + 1
    k = blk + 1
    while k <= p:
        if s.kind(k) == "open":
            c = s.closer(k)
            if c >= p:
                k += 1
                continue
            # a closed `{...}` group at block level ends a block-like statement unless followed by else / . / ?
            if s.txt(k) == "{" and not (s.is_(c + 1, "else") or s.is_(c + 1, ".") or s.is_(c + 1, "?") or s.is_(c + 1, ";") or s.is_(c + 1, ",") or s.is_(c + 1, ")")):
                first = s.txt(start)
                if first in ("if", "match", "while", "for", "loop", "unsafe", "{") or k == start:
                    start = c + 1
            k = c + 1
            continue
        if s.txt(k) == ";":
            start = k + 1
        k += 1
    if blk >= 0 and _is_expr_brace(s, blk):
        return _stmt_start(s, blk)
    return start


def _is_expr_brace(s, blk):
    """is the `{` at blk the body of a match / struct literal rather than a statement block?  (then anchors
    climb to the enclosing statement)"""
    # match arms: `match e {` ; struct literal: `Name {` preceded by ident and followed by `ident :`
    k = blk - 1
    depth_tokens = []
    while k >= 0 and s.txt(k) not in (";", "{", "}"):
        depth_tokens.append(s.txt(k))
        if s.kind(k) == "close":
            k = s.closer(k)
        k -= 1
    toks = list(reversed(depth_tokens))
    if "match" in toks and not any(x in toks for x in ("=>",)):
        return True
    if toks and toks[-1] == "=>":
        return True
    return False


def _stmt_end(s, st):
    """last code position of the statement starting at code position st"""
    k = st
    first = s.txt(st)
    while k < len(s):
        if s.kind(k) == "open":
            c = s.closer(k)
            if s.txt(k) == "{" and first in ("if", "match", "while", "for", "loop", "unsafe", "{"):
                if s.is_(c + 1, "else"):
                    k = c + 1
                    continue
                if s.is_(c + 1, ";"):
                    return c + 1
                if not (s.is_(c + 1, ".") or s.is_(c + 1, "?")):
                    return c
            k = c + 1
            continue
        if s.kind(k) == "close":
            return k - 1
        if s.txt(k) == ";":
            return k
        k += 1
    return len(s) - 1


def assemble(template_path, repo, verif_root, canary=False):
    out = Assembled()
    _process(template_path, out, repo, verif_root, canary, 0)
    return out


def _process(path, out, repo, verif_root, canary, depth, subst=()):
    if depth > 5:
        raise Undecided("template: include depth")
    with open(path) as f:
        txt = f.read().rstrip("\n")
    for a, b in subst:
        txt = txt.replace(a, b)
    tl = txt.split("\n")
    i = 0
    while i < len(tl):
        ln = tl[i]
        st = ln.strip()
        if st.startswith("//@include-subst"):
            parts = shlex.split(st[len("//@include-subst"):])
            ipath = "%s/%s" % (verif_root, parts[0])
            sub = [tuple(y.replace("\\n", "\n") for y in x.split("=>", 1)) for x in parts[1:]]   # `\n` in a pattern/replacement = line break
            _process(ipath, out, repo, verif_root, canary, depth + 1, tuple(subst) + tuple(sub))
            i += 1
        elif st.startswith("//@include"):
            ipath = "%s/%s" % (verif_root, st.split()[1])
            with open(ipath) as f:
                inc = f.read().rstrip("\n")
            if "//@" in inc:
                _process(ipath, out, repo, verif_root, canary, depth + 1, subst)
            else:
                out.proof_fns += len(re.findall(r"\bproof fn\b", inc))
                out.emit(inc, Origin(kind="include", src=st.split()[1]))
            i += 1
        elif st.startswith("//@const"):
            _, file, name = st.split()[:3]
            text, line = find_const(repo, file, name)
            if not text.startswith("pub"):
                text = "pub " + text
            out.emit(text, Origin(kind="const", src="%s:%d" % (file, line)))
            out.shape_checks.append("const %s from %s:%d" % (name, file, line))
            i += 1
        elif st.startswith("//@static-as-const"):
            # an immutable `static` of plain data read by the code under contract: emitted as a `const` of the same text
            _, file, name = st.split()[:3]
            text, line = find_const(repo, file, name, keyword="static")
            text = "pub const" + text[len("static"):]
            out.emit(text, Origin(kind="const", src="%s:%d" % (file, line)))
            out.shape_checks.append("static %s from %s:%d (as const)" % (name, file, line))
            i += 1
        elif st.startswith("//@expect-struct"):
            parts = st.split(None, 3)
            file, name, want = parts[1], parts[2], parts[3]
            _, fields, line = find_struct(repo, file, name)
            got = ", ".join("%s: %s" % (a, b) for a, b in fields)
            wantn = ", ".join("%s: %s" % (norm(x.split(":", 1)[0]), norm(x.split(":", 1)[1])) for x in _split_fields(want))
            if got != wantn:
                raise Undecided("shape drift: struct %s in %s is {%s}, contract expects {%s}" % (name, file, got, wantn))
            out.shape_checks.append("struct %s %s:%d" % (name, file, line))
            i += 1
        elif st.startswith("//@expect-enum"):
            parts = st.split(None, 3)
            file, name, want = parts[1], parts[2], parts[3]
            _, variants, line = find_enum(repo, file, name)
            wantn = [norm(x) for x in _split_fields(want)]
            if variants != wantn:
                raise Undecided("shape drift: enum %s in %s is %s, contract expects %s" % (name, file, variants, wantn))
            out.shape_checks.append("enum %s %s:%d" % (name, file, line))
            i += 1
        elif st.startswith("//@expect-body"):
            parts = st.split(None, 3)
            file, item, want = parts[1], parts[2], parts[3]
            f = find_fn(repo, file, item)
            if norm(f.body) != norm(want):
                raise Undecided("shape drift: body of %s in %s is `%s`, rule expects `%s`" % (item, file, norm(f.body), norm(want)))
            out.shape_checks.append("body %s %s:%d" % (item, file, f.line))
            i += 1
        elif st.startswith("//@extract"):
            spec, i = _read_block(tl, i)
            _emit_fn(out, spec, repo, canary)
        elif st.startswith("//@"):
            raise Undecided("template: unknown directive %r at line %d of %s" % (st, i + 1, path))
        else:
            if re.search(r"\bproof fn\b", ln):
                out.proof_fns += 1
            out.emit(ln, Origin(kind="template"))
            i += 1


def _split_fields(s):
    ps = Src(s)
    from .extract import _split_top
    return _split_top(ps, 0, len(ps))


def _emit_fn(out, spec, repo, canary):
    kw = spec["kw"]
    subst = None
    if "subst" in kw:
        subst = dict(x.split(":") for x in kw["subst"].split(","))
    f = find_fn(repo, spec["file"], spec["item"], macro=kw.get("macro"), subst=subst,
                nth=int(kw["nth"]) if "nth" in kw else None, trait=kw.get("trait"))
    name = kw.get("rename") or (("%s::%s" % (f.owner, f.name)) if f.owner else f.name)
    uname = name
    n = 2
    while uname in out.fns:
        uname = "%s#%d" % (name, n)
        n += 1
    name = uname
    props = spec["props"]
    clauses = []
    # signature
    if spec["sig"]:
        _check_sig(f, spec["sig"], name, spec.get("sigfree", ()))
        sig = spec["sig"]
    else:
        sig = f.sig
        if f.sig_parts["ret"]:
            # name the return value
            idx = sig.rfind("->")
            sig = sig[:idx] + "-> (res: " + f.sig_parts["ret"].strip() + ")" + (" " + f.sig_parts["where"] if f.sig_parts["where"] else "")
    if not re.match(r"^\s*pub\b", sig):
        sig = "pub " + sig.lstrip()
    sig = re.sub(r"^pub\s*\([^)]*\)", "pub", sig)
    if kw.get("rename"):
        sig = re.sub(r"\bfn\s+%s\b" % re.escape(f.name), "fn " + kw["rename"].split("::")[-1], sig, count=1)

    fbody = f.body
    if re.search(r"\(\s*mut\s+self\b", sig):
        # R14: `mut self` receiver (unsupported by Verus): take `self` by value and move it into a mutable local
        sig = re.sub(r"\(\s*mut\s+self\b", "(self", sig, count=1)
        sb = Src(fbody)
        outp, last = [], 0
        for q in range(len(sb)):
            if sb.txt(q) == "self" and sb.kind(q) == "ident":
                outp.append(fbody[last:sb.start(q)])
                outp.append("vx_self")
                last = sb.end(q)
        outp.append(fbody[last:])
        fbody = "\n        let mut vx_self = self;" + "".join(outp)
        out.rule_hits["R14"] = out.rule_hits.get("R14", 0) + 1
    body, hits = apply_rules(fbody, spec["rules"])
    for k, v in hits.items():
        out.rule_hits[k] = out.rule_hits.get(k, 0) + v

    # ---- anchors: every hint / loop contract is attached at a character offset of the rewritten body ----
    s = Src(body)
    loops = _loops(s)
    edits = []      # (offset, order, text)
    hints = []      # hint line lists, addressed by marker index

    def need_loop(n):
        if n > len(loops):
            # the loop the contract addresses is gone (rewritten without a loop): its invariants and hints are scaffolding
            # only — drop them and let the remaining obligations (postconditions, safety) decide
            out.notes.append("%s: loop %d addressed by the contract is absent; its invariants/hints were skipped" % (name, n))
            return None
        return loops[n - 1]

    for n, lp in spec["loops"].items():
        got = need_loop(n)
        if got is None:
            continue
        kwpos, brace = got
        edits.append((s.start(brace), 1, "\n/*@LOOP %d@*/\n" % n))
        if lp["opts"].get("binder") and s.txt(kwpos) == "for":
            q = kwpos
            while not s.is_(q, "in"):
                q += 1
            edits.append((s.end(q), 0, " %s:" % lp["opts"]["binder"]))
    blines0 = body.split("\n")
    line_off = [0]
    for l in blines0:
        line_off.append(line_off[-1] + len(l) + 1)
    for a in spec["anchors"]:
        hints.append(a["lines"])
        mk = "\n/*@H %d@*/\n" % (len(hints) - 1)
        w = a["where"]
        if w in ("before", "after"):
            rx = re.compile(a["regex"])
            hitsl = [k for k, l in enumerate(blines0) if rx.search(l) and not l.strip().startswith("//")]
            if len(hitsl) < a["nth"]:
                raise Undecided("anchor lost: /%s/ #%d not found in body of %s" % (a["regex"], a["nth"], name))
            k = hitsl[a["nth"] - 1]
            off = line_off[k] if w == "before" else min(line_off[k + 1] - 1, len(body))
            edits.append((off, 2, mk))
        elif w in ("loop-start", "loop-end", "before-loop", "after-loop"):
            got = need_loop(a["n"])
            if got is None:
                hints.pop()
                continue
            kwpos, brace = got
            if w == "loop-start":
                off = s.end(brace)
            elif w == "loop-end":
                off = s.start(s.closer(brace))
            elif w == "before-loop":
                off = s.start(_stmt_start(s, kwpos))
            else:
                off = s.end(s.closer(brace))
            edits.append((off, 2, mk))
        elif w == "at-exits":
            for p in range(len(s)):
                if s.txt(p) == "return" and s.kind(p) == "ident":
                    if p > 0 and s.txt(p - 1) not in ("{", ";", "}"):
                        raise Undecided("at-exits: `return` in expression position in %s" % name)
                    edits.append((s.start(p), 2, mk))
            # the tail expression / last statement of the body
            last = len(s) - 1
            if last >= 0:
                st = _stmt_start(s, last) if s.txt(last) != ";" else None
                if st is not None and s.txt(st) != "return":
                    edits.append((s.start(st), 2, mk))
                elif st is None:
                    edits.append((len(body), 2, mk))
        elif w in ("before-call", "after-call"):
            pos = [p for p in range(len(s) - 1) if s.txt(p) == a["call"] and s.kind(p) == "ident" and s.is_(p + 1, "(")
                   and not s.is_(p - 1, "fn")]
            if len(pos) < a["nth"]:
                raise Undecided("anchor lost: call %s #%d not found in body of %s" % (a["call"], a["nth"], name))
            p0 = pos[a["nth"] - 1]
            st = _stmt_start(s, p0)
            off = s.start(st) if w == "before-call" else s.end(_stmt_end(s, st))
            edits.append((off, 2, mk))
    for off, _, txt in sorted(edits, key=lambda e: (e[0], e[1]), reverse=True):
        body = body[:off] + txt + body[off:]
    blines = body.split("\n")

    def hint(name, lines):
        bare = [l for l in lines if l.strip().startswith("let ghost") or l.strip().startswith("let tracked")]
        rest = [l for l in lines if l not in bare]
        for l in bare:
            out.emit("        " + l, Origin(name, "hint"))
        if rest:
            out.emit("        proof {", Origin(name, "hint"))
            for l in rest:
                out.emit("        " + l, Origin(name, "hint"))
            out.emit("        }", Origin(name, "hint"))

    def render(name, sig, ens, clauses):
        for attr in spec["attrs"]:
            out.emit("    " + attr, Origin(name, "attr"))
        out.emit("    " + sig, Origin(name, "sig", src="%s:%d" % (f.file, f.line)))
        if spec["requires"]:
            out.emit("        requires", Origin(name, "requires"))
            _emit_clauses(out, name, "requires", spec["requires"], props, clauses)
        if ens:
            out.emit("        ensures", Origin(name, "ensures"))
            _emit_clauses(out, name, "ensures", ens, props, clauses)
        out.emit("    {", Origin(name, "body"))
        if spec["entry"]:
            hint(name, spec["entry"])
        src_line = f.body_line
        for k, l in enumerate(blines):
            m = re.match(r"^/\*@LOOP (\d+)@\*/$", l.strip())
            m2 = re.match(r"^/\*@H (\d+)@\*/$", l.strip())
            if m:
                lp = spec["loops"][int(m.group(1))]
                _emit_clauses(out, name, "invariant", lp["lines"], props, clauses)
            elif m2:
                hint(name, hints[int(m2.group(1))])
            else:
                out.emit(l, Origin(name, "body", src="%s:%d" % (f.file, src_line)))
                src_line += 1
        out.emit("    }", Origin(name, "body"))

    render(name, sig, list(spec["ensures"]), clauses)
    if canary:
        csig = re.sub(r"\bfn\s+([A-Za-z0-9_]+)", lambda m: "fn " + m.group(1) + "__canary", sig, count=1)
        render(name + "__canary", csig, ["[%s:CANARY] false," % (",".join(props) or "X")], [])
        out.canaries.append(name + "__canary")
    bare = [n for n in range(1, len(loops) + 1) if n not in spec["loops"]]
    out.fns[name] = dict(props=props, file=f.file, line=f.line, rules=hits, bare_loops=bare, item=spec["item"], kw=dict(kw),
                         clauses=[tuple(c) for c in clauses if c[2] != "requires"],
                         requires=[tuple(c) for c in clauses if c[2] == "requires"],
                         real_sig=norm(f.sig))
