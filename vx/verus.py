"""Run Verus on an assembled unit and attribute every diagnostic to an obligation."""
import json
import os
import subprocess
import time

SEMANTIC = (
    "postcondition not satisfied",
    "precondition not satisfied",
    "invariant not satisfied",
    "assertion failed",
    "possible arithmetic underflow/overflow",
    "possible arithmetic overflow",
    "possible arithmetic underflow",
    "possible division by zero",
    "possible bit shift underflow/overflow",
    "index out of bounds",
    "recommendation not met",
    "decreases not satisfied",
    "could not prove termination",
    "loop invariant not satisfied",
    "possible truncation",
    "unreachable",
    "cannot show invariant",
    "possible overflow",
    "precondition not met",
)
RESOURCE = ("rlimit", "Resource limit", "timed out", "timeout")


class Failure:
    def __init__(self, fn, label, props, message, where, rendered, clause_text):
        self.fn, self.label, self.props = fn, label, tuple(props)
        self.message, self.where, self.rendered, self.clause_text = message, where, rendered, clause_text

    def key(self):
        return "%s/%s" % (self.fn, self.label)

    def to_json(self):
        return dict(function=self.fn, obligation=self.label, properties=list(self.props), message=self.message,
                    at=self.where, clause=self.clause_text, verifier_output=self.rendered)


class Result:
    def __init__(self):
        self.failures = []
        self.undecided = []       # strings
        self.verified = 0
        self.errors = 0
        self.wall_s = 0.0
        self.smt_ms = 0
        self.total_ms = 0
        self.cmd = ""
        self.fn_times = {}
        self.rejections = []      # rustc/VIR errors that are not proof failures: dict(message, spans)


def run(asm, out_path, rlimit=60, extra_args=(), threads=8):
    os.makedirs(os.path.dirname(out_path), exist_ok=True)
    with open(out_path, "w") as f:
        f.write(asm.text())
    cmd = ["verus", out_path, "--error-format=json", "--triggers-mode", "silent", "--multiple-errors", "64",
           "--rlimit", str(rlimit), "--output-json", "--time", "--num-threads", str(threads)] + list(extra_args)
    res = Result()
    res.cmd = " ".join(cmd)
    t0 = time.time()
    try:
        p = subprocess.run(cmd, capture_output=True, text=True, timeout=900, cwd=os.path.dirname(out_path))
    except subprocess.TimeoutExpired:
        res.undecided.append("verus timed out after 900 s")
        res.wall_s = time.time() - t0
        return res
    res.wall_s = time.time() - t0
    try:
        j = json.loads(p.stdout)
        vr = j.get("verification-results", {})
        res.verified = vr.get("verified", 0)
        res.errors = vr.get("errors", 0)
        tm = j.get("times-ms", {})
        res.total_ms = tm.get("total", 0)
        smt = tm.get("smt", {})
        res.smt_ms = smt.get("total", 0) if isinstance(smt, dict) else 0
        if vr.get("encountered-vir-error"):
            res.undecided.append("verus reported a VIR error (unsupported construct or ill-formed contract)")
    except Exception:
        res.undecided.append("verus produced no JSON summary (exit %s): %s" % (p.returncode, (p.stdout + p.stderr)[-600:]))
    for ln in p.stderr.split("\n"):
        ln = ln.strip()
        if not ln.startswith("{"):
            continue
        try:
            d = json.loads(ln)
        except Exception:
            continue
        if d.get("level") != "error":
            continue
        msg = d.get("message", "")
        if msg.startswith("aborting due to"):
            continue
        spans = d.get("spans", [])
        rendered = d.get("rendered", "")
        if any(r in msg for r in RESOURCE):
            res.undecided.append("resource limit: " + msg.split("\n")[0])
            continue
        if not any(msg.startswith(s) or s in msg for s in SEMANTIC) or d.get("code"):
            res.undecided.append("verus rejected the unit (not a proof failure): %s @ %s" % (
                msg.split("\n")[0], ", ".join("%s" % sp.get("line_start") for sp in spans)))
            res.rejections.append(dict(message=msg, spans=spans))
            continue
        res.failures.append(_attribute(asm, msg, spans, rendered))
    return res


def _attribute(asm, msg, spans, rendered):
    # spans that point into other files (macro expansions such as `matches!` carry spans of core's macro source) say nothing
    # about lines of the unit
    own = [sp for sp in spans if str(sp.get("file_name", "unit.rs")).endswith("unit.rs")]
    spans = own or spans
    prim = [sp for sp in spans if sp.get("is_primary")] or spans
    clause = None
    fn_body = None
    where = None
    any_fn = None
    for sp in prim + [s for s in spans if s not in prim]:
        ln = sp.get("line_start", 1) - 1
        if ln < 0 or ln >= len(asm.origin):
            continue
        o = asm.origin[ln]
        if o.fn and any_fn is None:
            any_fn = o
        if o.kind in ("ensures", "invariant", "requires") and o.label and clause is None:
            clause = o
        if o.kind in ("body", "hint", "sig") and o.fn and fn_body is None:
            fn_body = o
            where = o.src or ("unit line %d" % (ln + 1))
    # function under verification: the one whose body contains a span; else the clause's owner
    fn = fn_body.fn if fn_body else (clause.fn if clause else (any_fn.fn if any_fn else None))
    if fn is None:
        # failure inside template text (a lemma or hand-written glue)
        ln = (prim[0].get("line_start", 1) - 1) if prim else 0
        return Failure("<template>", "template-line-%d" % (ln + 1), (), msg, "unit line %d" % (ln + 1), rendered, "")
    if clause is not None and clause.fn == fn and clause.kind == "ensures":
        return Failure(fn, clause.label, clause.props, msg, where, rendered, clause.text)
    if clause is not None and clause.fn == fn and clause.kind == "invariant":
        # a loop invariant is scaffolding for every postcondition of the function: once it fails, Verus has only
        # *assumed* it for the rest of the body, so no property served by this function is established any more
        props = tuple(clause.props) + tuple(x for x in asm.fns.get(fn, {}).get("props", ()) if x not in clause.props)
        return Failure(fn, clause.label, props, msg, where, rendered, clause.text)
    # precondition of a callee, overflow, bounds, assert: the function's safety obligation
    props = asm.fns.get(fn, {}).get("props", ())
    extra = ""
    if clause is not None:
        extra = " (callee clause %s of %s)" % (clause.label, clause.fn)
    return Failure(fn, "safety", props, msg + extra, where, rendered, clause.text if clause else "")
